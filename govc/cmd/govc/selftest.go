package main

import (
	"encoding/json"
	"fmt"
	"os"
	"os/exec"
	"path/filepath"
	"runtime"
	"sort"
	"strings"
	"sync"
)

// Corpus entry: a change to the repository with the expected verdict.
type corpusMeta struct {
	Property   string   `json:"property"`
	Properties []string `json:"properties"`
	Expect     string   `json:"expect"`      // "violation" | "pass"
	Detected   []string `json:"detected_by"` // properties whose check must raise a violation
	Summary    string   `json:"summary"`
}

type corpusEntry struct {
	Dir  string
	Meta corpusMeta
}

func loadCorpus() []corpusEntry {
	var out []corpusEntry
	// seeded/_unconfirmed: changes whose demonstration no longer reproduces on the current tree after later repairs
	// (the window they need became narrower); they still have to be flagged
	for _, root := range []string{"seeded", "seeded/_unconfirmed", "selftest/mutants", "selftest/harmless"} {
		dirs, _ := filepath.Glob(filepath.Join(verifDir, root, "*"))
		sort.Strings(dirs)
		for _, d := range dirs {
			b, err := os.ReadFile(filepath.Join(d, "meta.json"))
			if err != nil {
				continue
			}
			var m corpusMeta
			if json.Unmarshal(b, &m) != nil {
				continue
			}
			if m.Expect == "" {
				if strings.Contains(root, "harmless") {
					m.Expect = "pass"
				} else {
					m.Expect = "violation"
				}
			}
			if len(m.Detected) == 0 && m.Property != "" {
				m.Detected = []string{m.Property}
			}
			if _, err := os.Stat(filepath.Join(d, "patch.diff")); err != nil {
				continue
			}
			out = append(out, corpusEntry{d, m})
		}
	}
	return out
}

// scratchCopy copies the parts of the repository the checker loads into a
// fresh directory under $TMPDIR and applies the patch there.
func scratchCopy(repo, patch string) (string, error) {
	tmp, err := os.MkdirTemp("", "govc-scratch-")
	if err != nil {
		return "", err
	}
	for _, p := range []string{"go.mod", "go.sum", "leader", "internal"} {
		if out, err := exec.Command("cp", "-r", filepath.Join(repo, p), tmp+"/").CombinedOutput(); err != nil {
			os.RemoveAll(tmp)
			return "", fmt.Errorf("copy %s: %v %s", p, err, out)
		}
	}
	cmd := exec.Command("git", "apply", "--whitespace=nowarn", patch)
	cmd.Dir = tmp
	if out, err := cmd.CombinedOutput(); err != nil {
		os.RemoveAll(tmp)
		return "", fmt.Errorf("patch does not apply: %v %s", err, out)
	}
	return tmp, nil
}

// runCheckOn runs a quick check of prop against a scratch tree; returns the
// names of violated obligations and the exit code.
func runCheckOn(tree, prop string) ([]string, int, string) {
	self, _ := os.Executable()
	cmd := exec.Command(self, "check", prop, "quick")
	cmd.Env = append(os.Environ(), "VERIF_REPO="+tree, "GOVC_SCRATCH=1")
	out, err := cmd.CombinedOutput()
	code := 0
	if ee, ok := err.(*exec.ExitError); ok {
		code = ee.ExitCode()
	} else if err != nil {
		code = 2
	}
	var viol []string
	for _, l := range strings.Split(string(out), "\n") {
		if strings.HasPrefix(l, "VIOLATION ") {
			for _, f := range strings.Fields(l) {
				if strings.HasPrefix(f, "obligation=") {
					viol = append(viol, f[11:])
				}
			}
		}
	}
	return viol, code, string(out)
}

// cmdSelftest: must-fail and must-pass corpora. With a property id, only
// the entries that concern that property are run.
func cmdSelftest(repo string, only string) int {
	corpus := loadCorpus()
	type job struct {
		ce    corpusEntry
		props []string
	}
	var jobs []job
	for _, ce := range corpus {
		props := ce.Meta.Detected
		if ce.Meta.Expect == "pass" {
			props = ce.Meta.Properties
			if len(props) == 0 && ce.Meta.Property != "" {
				props = []string{ce.Meta.Property}
			}
		}
		if only != "" {
			keep := false
			for _, p := range props {
				if p == only {
					keep = true
				}
			}
			if !keep {
				continue
			}
			props = []string{only}
		}
		jobs = append(jobs, job{ce, props})
	}
	// one worker per corpus entry at a time (each has its own scratch copy); the checks of one entry run in turn
	workers := runtime.NumCPU() / 2
	if workers < 1 {
		workers = 1
	}
	if workers > 8 {
		workers = 8
	}
	var mu sync.Mutex
	bad, ran := 0, 0
	ch := make(chan job)
	var wg sync.WaitGroup
	for w := 0; w < workers; w++ {
		wg.Add(1)
		go func() {
			defer wg.Done()
			for j := range ch {
				ce := j.ce
				var lines []string
				nbad, nran := 0, 0
				tree, err := scratchCopy(repo, filepath.Join(ce.Dir, "patch.diff"))
				if err != nil {
					// a corpus entry that no longer applies to the tree says nothing about the checks: it must be
					// ported (tools/verify_on_head.sh) or retired, so it counts as unexpected
					lines = append(lines, fmt.Sprintf("SELFTEST-STALE %s: %v", filepath.Base(ce.Dir), err))
					nbad++
				} else {
					for _, p := range j.props {
						nran++
						viol, code, out := runCheckOn(tree, p)
						switch ce.Meta.Expect {
						case "violation":
							if code == 1 && len(viol) > 0 {
								lines = append(lines, fmt.Sprintf("SELFTEST-OK   %-28s %s raises %s", filepath.Base(ce.Dir), p, strings.Join(viol, ",")))
							} else {
								nbad++
								lines = append(lines, fmt.Sprintf("SELFTEST-MISS %-28s %s exit=%d (expected a violation)", filepath.Base(ce.Dir), p, code))
								if code == 2 {
									lines = append(lines, tailStr(out, 600))
								}
							}
						default:
							if code == 0 {
								lines = append(lines, fmt.Sprintf("SELFTEST-OK   %-28s %s stays quiet", filepath.Base(ce.Dir), p))
							} else {
								nbad++
								lines = append(lines, fmt.Sprintf("SELFTEST-FALSE-ALARM %-22s %s exit=%d %s", filepath.Base(ce.Dir), p, code, strings.Join(viol, ",")))
								if code == 2 {
									lines = append(lines, tailStr(out, 600))
								}
							}
						}
					}
					os.RemoveAll(tree)
				}
				mu.Lock()
				for _, l := range lines {
					fmt.Println(l)
				}
				bad += nbad
				ran += nran
				mu.Unlock()
			}
		}()
	}
	for _, j := range jobs {
		ch <- j
	}
	close(ch)
	wg.Wait()
	fmt.Printf("selftest: %d runs, %d unexpected\n", ran, bad)
	if bad > 0 {
		return 3
	}
	return 0
}

func tailStr(s string, n int) string {
	if len(s) <= n {
		return s
	}
	return s[len(s)-n:]
}
