package main

import (
	"encoding/json"
	"fmt"
	"go/constant"
	"go/types"
	"os/exec"
	"path/filepath"
	"sort"
	"strings"

	"golang.org/x/tools/go/ssa"
)

// catEntry is one error value of the NATS-client catalogue (see /verif/natscat).
type catEntry struct {
	Name     string          `json:"name"`
	Class    string          `json:"class"`
	Msg      string          `json:"msg"`
	Lower    string          `json:"lower"`
	Type     string          `json:"type"`
	Is       map[string]bool `json:"is"`
	Contains map[string]bool `json:"contains"`
}

var classifierFuncs = []string{"IsPermanentError", "IsTransientError"}

// loadCatalogue collects every string constant of the classifier functions
// (from the current tree) and asks natscat, which is compiled against the
// real client module, how each catalogue value relates to it.
func (e *Engine) loadCatalogue() error {
	pats := map[string]bool{}
	// the classifiers, the helpers of the package they call, and every constant table of the package
	seen := map[*ssa.Function]bool{}
	var work []*ssa.Function
	for _, k := range classifierFuncs {
		if fn := e.funcs[k]; fn != nil {
			work = append(work, fn)
		}
	}
	for _, cs := range e.constTables {
		for _, cv := range cs {
			c, ok := cv.(*ssa.Const)
			if !ok {
				continue
			}
			if c.Value != nil && c.Value.Kind() == constant.String {
				pats[constant.StringVal(c.Value)] = true
			}
		}
	}
	for len(work) > 0 {
		fn := work[len(work)-1]
		work = work[:len(work)-1]
		if seen[fn] {
			continue
		}
		seen[fn] = true
		for _, b := range fn.Blocks {
			for _, in := range b.Instrs {
				if c, ok := in.(ssa.CallInstruction); ok {
					if sc := c.Common().StaticCallee(); sc != nil && sc.Pkg == e.pkg && sc.Blocks != nil {
						work = append(work, sc)
					}
				}
			}
		}
		for _, b := range fn.Blocks {
			for _, in := range b.Instrs {
				for _, op := range in.Operands(nil) {
					if c, ok := (*op).(*ssa.Const); ok && c.Value != nil && c.Value.Kind() == constant.String {
						pats[constant.StringVal(c.Value)] = true
					}
				}
			}
		}
	}
	var args []string
	for p := range pats {
		args = append(args, p)
	}
	sort.Strings(args)
	out, err := exec.Command(filepath.Join(verifDir, "bin", "natscat"), args...).Output()
	if err != nil {
		return fmt.Errorf("natscat: %v", err)
	}
	if err := json.Unmarshal(out, &e.catalogue); err != nil {
		return fmt.Errorf("natscat output: %v", err)
	}
	e.cataloguePatterns = args
	return nil
}

// catalogueAxioms declares one constant per catalogue value and the ground
// facts about it.
func (u *Unit) catalogueAxioms() {
	if u.catDone || len(u.eng.catalogue) == 0 {
		return
	}
	u.catDone = true
	strT := func(s string) Term { return u.eng.strID(s) }
	// error sentinels of the package and of context
	var sentinels []string
	sc := u.eng.tpkg.Scope()
	for _, n := range sc.Names() {
		if v, ok := sc.Lookup(n).(*types.Var); ok && typeString(v.Type()) == "error" {
			sentinels = append(sentinels, n)
		}
	}
	for i, ce := range u.eng.catalogue {
		c := fmt.Sprintf("CAT_%d", i)
		u.decls = append(u.decls, fmt.Sprintf("(declare-const %s Int) ; %s", c, ce.Name))
		ct := Term{c, SInt}
		u.catTerms = append(u.catTerms, ct)
		ax := func(t Term) { u.globalAxioms = append(u.globalAxioms, "(assert "+t.S+")") }
		ax(Cmp(">", ct, TZero))
		ax(Eq(App(SInt, "typeof", ct), u.eng.typeIDName(ce.Type)))
		ax(Not(App(SBool, "ErrAs", ct, u.eng.typeIDName("*TimeoutError"))))
		for _, s := range []string{"context.Canceled", "context.DeadlineExceeded"} {
			f := App(SBool, "ErrIs", ct, u.sentinel(s))
			if ce.Is[s] {
				ax(f)
			} else {
				ax(Not(f))
			}
		}
		for _, s := range sentinels {
			ax(Not(App(SBool, "ErrIs", ct, u.sentinel(s))))
		}
		low := App(SInt, "StrLower", App(SInt, "ErrMsg", ct))
		for _, p := range u.eng.cataloguePatterns {
			f := App(SBool, "StrContains", low, strT(p))
			if ce.Contains[p] {
				ax(f)
			} else {
				ax(Not(f))
			}
		}
	}
}

func (u *Unit) catalogueMember(x Term, class string) Term {
	u.catalogueAxioms()
	var alts []Term
	for i, ce := range u.eng.catalogue {
		if ce.Class == class && i < len(u.catTerms) {
			alts = append(alts, Eq(x, u.catTerms[i]))
		}
	}
	if len(alts) == 0 {
		// no catalogue: the clause cannot be discharged vacuously
		return u.fresh(SBool, "no_catalogue")
	}
	return Or(alts...)
}

// textKeepingWrappers: fmt's %w wrapper, and the library's error types whose Error method carries the clause
// message_includes_cause (proved on that method; used here across the dynamic call err.Error()).
func (e *Engine) textKeepingWrappers() []string {
	out := []string{"*fmt.wrapError"}
	for _, k := range sortedKeys(e.cs.Funcs) {
		fc := e.cs.Funcs[k]
		if !strings.HasSuffix(k, ".Error") {
			continue
		}
		for _, c := range fc.Ensures {
			if strings.HasSuffix(c.Label, "message_includes_cause") {
				out = append(out, "*"+strings.TrimSuffix(k, ".Error"))
			}
		}
	}
	return out
}
