package main

import (
	"fmt"
	"go/types"
	"sort"
	"strings"
)

// Sort of an SMT term. Everything that is not Bool or Real is an Int:
// machine integers, durations, string ids, references, interface ids,
// byte-string ids, function ids, channel ids, opaque values.
type Sort int

const (
	SInt Sort = iota
	SBool
	SReal
)

func (s Sort) String() string {
	switch s {
	case SBool:
		return "Bool"
	case SReal:
		return "Real"
	}
	return "Int"
}

type Term struct {
	S    string
	Sort Sort
}

var (
	TTrue  = Term{"true", SBool}
	TFalse = Term{"false", SBool}
	TZero  = Term{"0", SInt}
)

func IntLit(n int64) Term {
	if n < 0 {
		// avoid overflow on MinInt64
		return Term{fmt.Sprintf("(- %s)", strings.TrimPrefix(fmt.Sprintf("%d", n), "-")), SInt}
	}
	return Term{fmt.Sprintf("%d", n), SInt}
}

func BigLit(s string) Term { // decimal literal, possibly negative
	if strings.HasPrefix(s, "-") {
		return Term{"(- " + s[1:] + ")", SInt}
	}
	return Term{s, SInt}
}

func BoolLit(b bool) Term {
	if b {
		return TTrue
	}
	return TFalse
}

func (t Term) IsTrue() bool  { return t.S == "true" }
func (t Term) IsFalse() bool { return t.S == "false" }

func Not(a Term) Term {
	if a.IsTrue() {
		return TFalse
	}
	if a.IsFalse() {
		return TTrue
	}
	if strings.HasPrefix(a.S, "(not ") {
		return Term{a.S[5 : len(a.S)-1], SBool}
	}
	return Term{"(not " + a.S + ")", SBool}
}

func And(ts ...Term) Term {
	var parts []string
	seen := map[string]bool{}
	for _, t := range ts {
		if t.IsFalse() {
			return TFalse
		}
		if t.IsTrue() || seen[t.S] {
			continue
		}
		seen[t.S] = true
		parts = append(parts, t.S)
	}
	switch len(parts) {
	case 0:
		return TTrue
	case 1:
		return Term{parts[0], SBool}
	}
	return Term{"(and " + strings.Join(parts, " ") + ")", SBool}
}

func Or(ts ...Term) Term {
	var parts []string
	seen := map[string]bool{}
	for _, t := range ts {
		if t.IsTrue() {
			return TTrue
		}
		if t.IsFalse() || seen[t.S] {
			continue
		}
		seen[t.S] = true
		parts = append(parts, t.S)
	}
	switch len(parts) {
	case 0:
		return TFalse
	case 1:
		return Term{parts[0], SBool}
	}
	return Term{"(or " + strings.Join(parts, " ") + ")", SBool}
}

func Implies(a, b Term) Term {
	if a.IsTrue() {
		return b
	}
	if a.IsFalse() || b.IsTrue() {
		return TTrue
	}
	if b.IsFalse() {
		return Not(a)
	}
	return Term{"(=> " + a.S + " " + b.S + ")", SBool}
}

func Eq(a, b Term) Term {
	if a.S == b.S {
		return TTrue
	}
	if a.Sort != b.Sort {
		a, b = coerce(a, b)
	}
	if a.Sort == SBool {
		if b.IsTrue() {
			return a
		}
		if a.IsTrue() {
			return b
		}
		if b.IsFalse() {
			return Not(a)
		}
		if a.IsFalse() {
			return Not(b)
		}
	}
	if isNumLit(a.S) && isNumLit(b.S) {
		return BoolLit(a.S == b.S)
	}
	return Term{"(= " + a.S + " " + b.S + ")", SBool}
}

func isNumLit(s string) bool {
	if s == "" {
		return false
	}
	for _, c := range s {
		if c < '0' || c > '9' {
			return false
		}
	}
	return true
}

func coerce(a, b Term) (Term, Term) {
	if a.Sort == SReal && b.Sort == SInt {
		return a, ToReal(b)
	}
	if a.Sort == SInt && b.Sort == SReal {
		return ToReal(a), b
	}
	return a, b
}

func ToReal(a Term) Term {
	if a.Sort == SReal {
		return a
	}
	if isNumLit(a.S) {
		return Term{a.S + ".0", SReal}
	}
	return Term{"(to_real " + a.S + ")", SReal}
}

func Ite(c, a, b Term) Term {
	if c.IsTrue() {
		return a
	}
	if c.IsFalse() {
		return b
	}
	if a.S == b.S {
		return a
	}
	if a.Sort != b.Sort {
		a, b = coerce(a, b)
	}
	if a.Sort == SBool {
		if a.IsTrue() && b.IsFalse() {
			return c
		}
		if a.IsFalse() && b.IsTrue() {
			return Not(c)
		}
	}
	return Term{"(ite " + c.S + " " + a.S + " " + b.S + ")", a.Sort}
}

func App(sort Sort, op string, args ...Term) Term {
	if len(args) == 0 {
		return Term{op, sort}
	}
	parts := make([]string, len(args))
	for i, a := range args {
		parts[i] = a.S
	}
	return Term{"(" + op + " " + strings.Join(parts, " ") + ")", sort}
}

func Arith(op string, a, b Term) Term {
	if a.Sort != b.Sort {
		a, b = coerce(a, b)
	}
	return App(a.Sort, op, a, b)
}

func Cmp(op string, a, b Term) Term {
	if a.Sort != b.Sort {
		a, b = coerce(a, b)
	}
	return App(SBool, op, a, b)
}

func Select(arr, idx Term) Term { return Term{"(select " + arr.S + " " + idx.S + ")", SInt} }

// ---------------------------------------------------------------- values

// Val is the symbolic value of an SSA value.
type Val interface{}

// Scalar: an SMT term plus the Go type it stands for.
type Scalar struct {
	T      Term
	Typ    types.Type
	Origin string // provenance tag: "field:kvElection.onDemote", "ctxdone:<term>", "after:<term>", ...
	Aux    Val    // auxiliary payload (e.g. the context a Done channel belongs to)
	// Allocs: when non-nil, the value is nil or one of these heap allocations of the activation (by index)
	Allocs *allocSet
	// Keys: for a map made by this activation, the constant keys it may hold (shared by every alias of the map)
	Keys *keySet
}

type keySet struct {
	known bool
	ks    map[string]bool
}

type allocSet struct{ ks []int }

func unionAllocs(a, b *allocSet) *allocSet {
	if a == nil || b == nil {
		return nil
	}
	out := &allocSet{ks: append([]int{}, a.ks...)}
	for _, k := range b.ks {
		dup := false
		for _, j := range out.ks {
			dup = dup || j == k
		}
		if !dup {
			out.ks = append(out.ks, k)
		}
	}
	return out
}

// allocsOf: the allocation set of a pointer value (a nil literal is the empty set), or nil when unknown.
func allocsOf(v Val) *allocSet {
	s, ok := v.(*Scalar)
	if !ok {
		return nil
	}
	if s.Allocs != nil {
		return s.Allocs
	}
	if s.T.S == "0" {
		return &allocSet{}
	}
	return nil
}

type StructV struct {
	Typ types.Type // named or struct type
	F   []Val
}

type TupleV struct{ Vs []Val }

// Cell is a local memory cell (an Alloc of this activation that is not a
// transparent struct on the shared heap).
type Cell struct {
	ID   int
	Name string
	Typ  types.Type // element type
}

// PtrV is an address: either into a local Cell or into the heap
// (Base = reference term of the enclosing object, Root = its struct name).
type PtrV struct {
	Cell *Cell
	Base Term
	Root string   // heap: name of the struct type at Base
	Path []string // field names / indexes from the cell root or heap object
	Elem types.Type
	RTyp types.Type // heap: named struct type at Base
}

type ClosureV struct {
	Fn    interface{} // *ssa.Function
	Binds []Val
	Recv  Val // bound method receiver (for $bound closures)
}

type SliceV struct {
	Cell *Cell // backing array cell (varargs), nil if opaque
	N    int
	T    Term // opaque id
	Typ  types.Type
	// Elems: the elements, when the slice was built from nil by append of literal element lists in this
	// activation (variadic option lists); nil otherwise. Known marks an empty but known list.
	Elems  []Val
	Guards []Term // parallel to Elems: the condition under which the element is part of the list
	Known  bool
}

func valTerm(v Val) (Term, bool) {
	switch x := v.(type) {
	case *Scalar:
		return x.T, true
	case *SliceV:
		return x.T, true
	}
	return Term{}, false
}

func pathKey(root string, path []string) string {
	return root + "." + strings.Join(path, ".")
}

func sanitize(s string) string {
	var b strings.Builder
	for _, c := range s {
		switch {
		case c >= 'a' && c <= 'z', c >= 'A' && c <= 'Z', c >= '0' && c <= '9', c == '_':
			b.WriteRune(c)
		default:
			b.WriteByte('_')
		}
	}
	return b.String()
}

func sortedKeys[V any](m map[string]V) []string {
	ks := make([]string, 0, len(m))
	for k := range m {
		ks = append(ks, k)
	}
	sort.Strings(ks)
	return ks
}
