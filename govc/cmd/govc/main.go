package main

import (
	"encoding/json"
	"fmt"
	"os"
	"os/exec"
	"path/filepath"
	"sort"
	"strconv"
	"strings"
	"time"

	"golang.org/x/tools/go/ssa"
)

var verifDir = "/verif"

func usage() {
	fmt.Fprintln(os.Stderr, `usage:
  govc check <PROP> quick|thorough     decide one property
  govc obls [substring]                generate and discharge obligations matching substring (development)
  govc dump <func>...                  print SSA
  govc list                            list functions and contracts`)
	os.Exit(2)
}

func main() {
	if len(os.Args) < 2 {
		usage()
	}
	// go/packages runs the go command found on PATH; the repository needs go >= 1.25.4
	os.Setenv("PATH", "/opt/veriftools/go1.26.8/bin:"+os.Getenv("PATH"))
	os.Setenv("GOTOOLCHAIN", "local")
	os.Setenv("GOFLAGS", "-mod=mod")
	os.Setenv("GOPROXY", "off")
	if d := os.Getenv("VERIF_DIR"); d != "" {
		verifDir = d
	}
	repo := os.Getenv("VERIF_REPO")
	if repo == "" {
		repo = "/repo"
	}
	switch os.Args[1] {
	case "check":
		if len(os.Args) < 4 {
			usage()
		}
		os.Exit(cmdCheck(repo, os.Args[2], os.Args[3]))
	case "selftest":
		only := ""
		if len(os.Args) > 2 {
			only = os.Args[2]
		}
		os.Exit(cmdSelftest(repo, only))
	case "replay":
		if len(os.Args) < 3 {
			usage()
		}
		os.Exit(cmdReplay(repo, os.Args[2]))
	case "obls":
		filter := ""
		if len(os.Args) > 2 {
			filter = os.Args[2]
		}
		os.Exit(cmdObls(repo, filter))
	case "dump":
		eng, err := LoadEngine(repo, contractsPath(repo))
		if err != nil {
			fmt.Fprintln(os.Stderr, "load:", err)
			os.Exit(2)
		}
		for _, k := range sortedKeys(eng.funcs) {
			for _, a := range os.Args[2:] {
				if k == a || bareName(k) == a {
					eng.funcs[k].WriteTo(os.Stdout)
				}
			}
		}
	case "list":
		eng, err := LoadEngine(repo, contractsPath(repo))
		if err != nil {
			fmt.Fprintln(os.Stderr, "load:", err)
			os.Exit(2)
		}
		for _, fn := range eng.roots {
			k := eng.keyOf[fn]
			c := ""
			if eng.cs.Funcs[k] != nil {
				c = "contract"
			}
			fmt.Printf("%-60s %s %s\n", k, eng.pos(fn.Pos()), c)
		}
	default:
		usage()
	}
}

func contractsPath(repo string) string {
	p := filepath.Join(repo, "leader", "verif_contracts.go")
	if _, err := os.Stat(p); err == nil {
		return p
	}
	return filepath.Join(verifDir, "contracts", "verif_contracts.go")
}

type runData struct {
	eng   *Engine
	units []*Unit
	obls  []*Obligation
}

func generate(repo string) (*runData, error) {
	t0 := time.Now()
	eng, err := LoadEngine(repo, contractsPath(repo))
	if err != nil {
		return nil, err
	}
	eng.loadSecs = time.Since(t0).Seconds()
	rd := &runData{eng: eng}
	for _, fn := range eng.roots {
		if fc := eng.cs.Funcs[eng.keyOf[fn]]; fc != nil && fc.Flags["inline_only"] {
			// thin unexported wrappers: verified inside each caller, where the caller's ghost state is known
			fc.Used = true
			continue
		}
		u := eng.VerifyRoot(fn)
		rd.units = append(rd.units, u)
		rd.obls = append(rd.obls, u.obls...)
	}
	rd.obls = append(rd.obls, eng.Structural()...)
	// contracts that name functions which do not exist are an engine error
	for _, k := range sortedKeys(eng.cs.Funcs) {
		if strings.HasPrefix(k, "iface:") || strings.HasPrefix(k, "extern:") {
			continue
		}
		if _, ok := eng.funcs[k]; !ok {
			return rd, fmt.Errorf("contract for unknown function %s (line %d)", k, eng.cs.Funcs[k].Line)
		}
	}
	return rd, nil
}

func hasProp(ob *Obligation, p string) bool {
	for _, x := range ob.Props {
		if x == p {
			return true
		}
	}
	return false
}

func failed(ob *Obligation) bool {
	if ob.Kind == "structural" {
		return !ob.Holds
	}
	return ob.Result == nil || (ob.Result.Verdict != "unsat" && ob.Result.Verdict != "trivial")
}

func cmdObls(repo, filter string) int {
	rd, err := generate(repo)
	if err != nil {
		fmt.Fprintln(os.Stderr, "engine error:", err)
		if rd == nil {
			return 2
		}
	}
	var sel []*Obligation
	for _, ob := range rd.obls {
		if filter == "" || strings.Contains(ob.Name, filter) || strings.Contains(strings.Join(ob.Props, ","), filter) {
			sel = append(sel, ob)
		}
	}
	work := filepath.Join(verifDir, ".work", "smt", "dev")
	if os.Getenv("GOVC_SCRATCH") != "" {
		// a run against a scratch tree keeps its files there (several may run at once)
		work = filepath.Join(repo, ".govc", "smt", "dev")
	}
	_ = os.RemoveAll(work)
	t0 := time.Now()
	solveAll(sel, work, "quick", 0)
	if os.Getenv("GOVC_COVER") != "" {
		for _, ob := range sel {
			if ob.Kind != "smt" {
				continue
			}
			dead := 0
			for i, part := range ob.Parts {
				file := filepath.Join(work, fmt.Sprintf("pc_%s_%d.smt2", sanitize(ob.Name), i))
				_ = os.WriteFile(file, []byte(ob.Unit.query(part, false)), 0o644)
				v, _, _ := runSolver(solvers[0], file, 10, 0)
				if v == "unsat" {
					dead++
				}
			}
			if dead > 0 {
				fmt.Printf("DEAD %s: %d of %d parts unreachable\n", ob.Name, dead, len(ob.Parts))
			}
		}
	}
	nfail := 0
	for _, ob := range sel {
		status := "ok  "
		extra := ""
		if failed(ob) {
			status = "FAIL"
			nfail++
			if ob.Kind == "structural" {
				extra = ob.Detail
			} else if ob.Result != nil {
				extra = ob.Result.Verdict + " " + ob.Result.File
			}
		}
		be := "structural"
		ms := int64(0)
		if ob.Result != nil {
			be, ms = ob.Result.Backend, ob.Result.Ms
		}
		fmt.Printf("%s %-90s [%s] %s %dms parts=%d %s\n", status, ob.Name, strings.Join(ob.Props, ","), be, ms, len(ob.Parts), extra)
	}
	for _, u := range rd.units {
		if u.failed != "" {
			fmt.Printf("UNIT-FAILED %s: %s\n", u.rootKey, u.failed)
		}
		for _, d := range u.degraded {
			fmt.Printf("note %s: %s\n", u.rootKey, d)
		}
		if len(u.unmodelled) > 0 && filter != "" && strings.Contains(u.rootKey, filter) {
			fmt.Printf("unmodelled in %s: %v\n", u.rootKey, u.unmodelled)
		}
	}
	fmt.Printf("%d obligations, %d failed, load %.1fs, solve %.1fs\n", len(sel), nfail, rd.eng.loadSecs, time.Since(t0).Seconds())
	return 0
}

// ---------------------------------------------------------------- known findings

type Finding struct {
	Property   string   `json:"property"`
	Properties []string `json:"properties,omitempty"`
	Obligation string   `json:"obligation"`
	What       string   `json:"what"`
	Replay     string   `json:"replay,omitempty"`
	Commit     string   `json:"commit,omitempty"`
}

type KnownFindings struct {
	Findings []Finding `json:"findings"`
	Fixed    []Finding `json:"fixed"`
}

func loadFindings() *KnownFindings {
	kf := &KnownFindings{}
	b, err := os.ReadFile(filepath.Join(verifDir, "known_findings.json"))
	if err == nil {
		_ = json.Unmarshal(b, kf)
	}
	return kf
}

func (kf *KnownFindings) lookup(prop, obl string) *Finding {
	for i := range kf.Findings {
		f := &kf.Findings[i]
		if f.Obligation != obl && f.Obligation != rootedName(obl) {
			continue
		}
		if f.Property == prop || f.Property == "" {
			return f
		}
		for _, p := range f.Properties {
			if p == prop {
				return f
			}
		}
	}
	return nil
}

// rootedName: the name an obligation raised inside an inlined helper ("label@helper->site~root") would have had if
// the statement stood in the root function itself ("label@root->site"): a finding listed for a call site stays the
// same finding when that call is moved into a helper of the same function.
func rootedName(obl string) string {
	i := strings.LastIndex(obl, "~")
	at := strings.Index(obl, "@")
	if i < 0 || at < 0 || at > i {
		return obl
	}
	root := obl[i+1:]
	rest := obl[at+1 : i]
	site := ""
	if j := strings.Index(rest, "->"); j >= 0 {
		site = rest[j:]
	}
	return obl[:at+1] + root + site
}

// entryOfLoopFails: some invariant of the loop named by the cover point ("loopinv@<fn>#<k>") is not established on
// entry (obligation "<label>.entry@<fn>->loop<k>" of the same unit fails), whatever property it belongs to.
func entryOfLoopFails(rd *runData, u *Unit, cover, work, tier string, seed int) bool {
	rest := strings.TrimPrefix(cover, "loopinv@")
	i := strings.LastIndex(rest, "#")
	if i < 0 {
		return false
	}
	fn, k := rest[:i], rest[i+1:]
	var sel []*Obligation
	for _, ob := range rd.obls {
		if ob.Unit == u && strings.Contains(ob.Name, ".entry@"+fn+"->loop"+k) {
			sel = append(sel, ob)
		}
	}
	if len(sel) == 0 {
		return false
	}
	var todo []*Obligation
	for _, ob := range sel {
		if ob.Kind != "structural" && ob.Result == nil {
			todo = append(todo, ob)
		}
	}
	if len(todo) > 0 {
		solveAll(todo, filepath.Join(work, "entry"), tier, seed)
	}
	for _, ob := range sel {
		if failed(ob) {
			return true
		}
	}
	return false
}

// ---------------------------------------------------------------- check

func cmdCheck(repo, prop, tier string) int {
	t0 := time.Now()
	seed := 0
	if s := os.Getenv("VERIF_SEED"); s != "" {
		seed, _ = strconv.Atoi(s)
	}
	rd, err := generate(repo)
	if err != nil {
		fmt.Fprintln(os.Stderr, "ENGINE-ERROR:", err)
		return 2
	}
	var sel []*Obligation
	unitsUsed := map[*Unit]bool{}
	for _, ob := range rd.obls {
		if hasProp(ob, prop) {
			sel = append(sel, ob)
			if ob.Unit != nil {
				unitsUsed[ob.Unit] = true
			}
		}
	}
	if len(sel) == 0 {
		fmt.Fprintf(os.Stderr, "ENGINE-ERROR: property %s generates no obligations\n", prop)
		return 2
	}
	for u := range unitsUsed {
		if u.failed != "" {
			fmt.Fprintf(os.Stderr, "ENGINE-ERROR: verification unit %s failed: %s\n", u.rootKey, u.failed)
			return 2
		}
	}
	scratch := os.Getenv("GOVC_SCRATCH") != ""
	work := filepath.Join(verifDir, ".work", "smt", prop+"_"+tier)
	if scratch {
		work = filepath.Join(repo, ".govc", "smt", prop)
	}
	_ = os.RemoveAll(work)
	tSolve := time.Now()
	solveAll(sel, work, tier, seed)
	solveSecs := time.Since(tSolve).Seconds()

	// vacuity: the assumptions in force at each precondition / invariant / lock acquisition are satisfiable
	coversTotal, coversReached := 0, 0
	var vacuous []string
	for u := range unitsUsed {
		for i, cp := range u.covers {
			coversTotal++
			file := filepath.Join(work, fmt.Sprintf("cover_%s_%d.smt2", sanitize(u.rootKey), i))
			_ = os.WriteFile(file, []byte(u.query(oblPart{PC: cp.PC, Goal: TTrue, NLines: cp.NLines}, false)), 0o644)
			v, _, _ := runSolver(solvers[0], file, 10, seed)
			if v == "unknown" || v == "timeout" || v == "error" {
				v, _, _ = runSolver(solvers[1], file, 10, seed)
			}
			if v == "sat" || v == "unknown" || v == "timeout" {
				coversReached++
			} else if strings.HasPrefix(cp.Name, "loopinv@") && entryOfLoopFails(rd, u, cp.Name, work, tier, seed) {
				// the invariant is assumed after its establishment was asserted: when that assertion fails (it is
				// reported as a violation under its own property) the assumption is unsatisfiable by construction
				coversReached++
			} else {
				vacuous = append(vacuous, cp.Name+"@"+u.rootKey+" ("+v+")")
			}
		}
	}
	if len(vacuous) > 0 {
		fmt.Fprintf(os.Stderr, "ENGINE-ERROR: vacuous assumptions: %v\n", vacuous)
		return 2
	}

	kf := loadFindings()
	var violations, known, discharged []*Obligation
	for _, ob := range sel {
		if !failed(ob) {
			discharged = append(discharged, ob)
			continue
		}
		if f := kf.lookup(prop, ob.Name); f != nil {
			known = append(known, ob)
			fmt.Printf("KNOWN-FINDING: property=%s %s %s\n", prop, ob.Name, f.What)
			continue
		}
		violations = append(violations, ob)
	}
	if tier == "thorough" {
		for _, ob := range sel {
			if ob.Result != nil && ob.Result.Disagree {
				fmt.Fprintf(os.Stderr, "ENGINE-ERROR: solvers disagree on %s: %v\n", ob.Name, ob.Result.All)
				return 2
			}
		}
	}
	// listed findings whose obligation no longer fails / exists: informational
	for _, f := range kf.Findings {
		if f.Property != prop {
			continue
		}
		found := false
		for _, ob := range sel {
			if ob.Name == f.Obligation {
				found = true
				if !failed(ob) {
					fmt.Printf("NOTE: listed finding %s now discharges on this tree\n", f.Obligation)
				}
			}
		}
		if !found {
			fmt.Printf("NOTE: listed finding %s has no obligation on this tree\n", f.Obligation)
		}
	}
	replayDir := filepath.Join(verifDir, "replays", prop)
	if scratch {
		replayDir = filepath.Join(repo, ".govc", "replays", prop)
	}
	for _, ob := range violations {
		path, confirmed := writeReplay(rd, ob, prop, replayDir)
		line := fmt.Sprintf("VIOLATION property=%s replay=%s obligation=%s", prop, path, ob.Name)
		if !confirmed {
			line += " no-failing-input-found"
		}
		fmt.Println(line)
	}
	thor := map[string]interface{}{}
	if tier == "thorough" && !scratch {
		thor = thoroughExtras(rd, repo, prop, kf, sel, work)
	}
	extraEvidence = thor
	if !scratch {
		writeEvidence(rd, prop, tier, seed, sel, discharged, known, violations, unitsUsed, time.Since(t0).Seconds(), solveSecs, coversTotal, coversReached)
	}
	fmt.Printf("%s %s: %d obligations, %d discharged, %d known findings, %d violations (%.1fs)\n", prop, tier, len(sel), len(discharged), len(known), len(violations), time.Since(t0).Seconds())
	if len(violations) > 0 {
		return 1
	}
	return 0
}

func writeReplay(rd *runData, ob *Obligation, prop, dir string) (string, bool) {
	_ = os.MkdirAll(dir, 0o755)
	name := sanitize(ob.Name)
	if len(name) > 120 {
		name = name[:120]
	}
	path := filepath.Join(dir, name+".json")
	rec := map[string]interface{}{
		"property":   prop,
		"obligation": ob.Name,
		"kind":       ob.Kind,
		"where":      ob.Where,
		"clause":     ob.Src,
		"detail":     ob.Detail,
	}
	confirmed := false
	if ob.Result != nil {
		rec["verdict"] = ob.Result.Verdict
		rec["backend"] = ob.Result.Backend
		rec["smt_file"] = ob.Result.File
		out := ob.Result.Output
		if len(out) > 20000 {
			out = out[:20000] + "\n...(truncated)"
		}
		rec["solver_output"] = out
		if ob.Result.Verdict == "sat" {
			if rp := tryReplay(rd, ob, prop, dir, name); rp != nil {
				rec["replay"] = rp
				confirmed = rp.Confirmed
			}
		} else {
			rec["reason"] = "undecided: no solver returned unsat or a model"
		}
	}
	if ob.Kind == "structural" {
		rec["reason"] = "structural obligation false on this tree"
		if rp := tryReplay(rd, ob, prop, dir, name); rp != nil {
			rec["replay"] = rp
			confirmed = rp.Confirmed
		}
	}
	b, _ := json.MarshalIndent(rec, "", " ")
	_ = os.WriteFile(path, b, 0o644)
	return path, confirmed
}

func writeEvidence(rd *runData, prop, tier string, seed int, sel, discharged, known, violations []*Obligation, units map[*Unit]bool, wall, solveSecs float64, coversTotal, coversReached int) {
	type obRec struct {
		Name    string `json:"name"`
		Backend string `json:"backend"`
		Result  string `json:"result"`
		Ms      int64  `json:"ms"`
		Parts   int    `json:"parts"`
	}
	var recs []obRec
	backends := map[string]int{}
	var solverMs int64
	for _, ob := range sel {
		r := obRec{Name: ob.Name, Parts: len(ob.Parts)}
		if ob.Kind == "structural" {
			r.Backend = "structural"
			r.Result = map[bool]string{true: "holds", false: "fails"}[ob.Holds]
		} else if ob.Result != nil {
			r.Backend, r.Result, r.Ms = ob.Result.Backend, ob.Result.Verdict, ob.Result.Ms
			solverMs += ob.Result.Ms
		}
		backends[r.Backend]++
		recs = append(recs, r)
	}
	var fns []string
	unmodelled := map[string]int{}
	var notes []string
	mathArith := []string{}
	for u := range units {
		fns = append(fns, u.rootKey)
		for k, v := range u.unmodelled {
			unmodelled[k] += v
		}
		for _, d := range u.degraded {
			notes = append(notes, u.rootKey+": "+d)
		}
		if u.fc != nil && u.fc.Flags["no_arith"] {
			mathArith = append(mathArith, u.rootKey)
		}
	}
	assumedUsed := map[string]bool{}
	for u := range units {
		for k := range u.assumedUsed {
			assumedUsed[k] = true
		}
	}
	var au, counters, conventions []string
	for k := range assumedUsed {
		if strings.HasPrefix(k, "convention ") {
			conventions = append(conventions, strings.TrimPrefix(k, "convention "))
			continue
		}
		if strings.HasPrefix(k, "arithmetic counter-step ") {
			counters = append(counters, strings.TrimPrefix(k, "arithmetic counter-step "))
			continue
		}
		au = append(au, k)
	}
	sort.Strings(counters)
	sort.Strings(au)
	sort.Strings(fns)
	sort.Strings(notes)
	sort.Strings(mathArith)
	var samples []interface{}
	for i, ob := range sel {
		if i >= 6 {
			break
		}
		s := map[string]interface{}{"obligation": ob.Name, "clause": ob.Src, "where": ob.Where}
		if ob.Result != nil {
			s["smt_file"] = ob.Result.File
			s["verdict"] = ob.Result.Verdict
		}
		samples = append(samples, s)
	}
	var knownNames, violNames []string
	for _, ob := range known {
		knownNames = append(knownNames, ob.Name)
	}
	for _, ob := range violations {
		violNames = append(violNames, ob.Name)
	}
	assumptions := assumptionsFor(prop)
	if len(mathArith) > 0 {
		assumptions = append(assumptions, "signed machine integers are checked for overflow (arith.no_overflow) in every function under contract except these, where a 64-bit counter incremented by one per call/attempt is treated as mathematical (2^63 increments are out of scope): "+strings.Join(mathArith, ", "))
	} else {
		assumptions = append(assumptions, "signed machine integers are checked for overflow (arith.no_overflow) in every function under contract used by this check")
	}
	if len(rd.eng.inferred) > 0 {
		var ks []string
		for k, c := range rd.eng.inferred {
			ks = append(ks, k+"="+c)
		}
		sort.Strings(ks)
		assumptions = append(assumptions, "fields of shared structs without a declaration in the contract file get the class their accesses show (immutable if only a constructor stores them, else guarded by the struct's mutex): "+strings.Join(ks, ", "))
	}
	sort.Strings(conventions)
	for _, c := range conventions {
		assumptions = append(assumptions, "nil-dereference obligations (nopanic.nil_deref) assume: "+c)
	}
	if len(counters) > 0 {
		assumptions = append(assumptions, "a step of one (x+1, x-1) on the value of a 64-bit integer field is treated as mathematical, 2^63 steps away from wrapping (fields declared `counter` are in addition checked to change by such steps only: counter.unit_step): "+strings.Join(counters, ", "))
	}
	assumptions = append(assumptions, "unsigned 64-bit counters (store revisions, disconnect generations) are mathematical everywhere: a wrap-around after 2^64 increments is out of scope")
	if len(au) > 0 {
		assumptions = append(assumptions, "assumed (not verified) contracts of interfaces and library functions used by the functions under contract: "+strings.Join(au, ", "))
	}
	if len(unmodelled) > 0 {
		var ks []string
		for k, v := range unmodelled {
			ks = append(ks, fmt.Sprintf("%s×%d", k, v))
		}
		sort.Strings(ks)
		assumptions = append(assumptions, "calls without a contract, treated as returning arbitrary values and not touching election state: "+strings.Join(ks, ", "))
	}
	ev := map[string]interface{}{
		"property_id": prop,
		"tier":        tier,
		"seed":        seed,
		"level":       "proof",
		"wall_s":      wall,
		"violations":  len(violations),
		"coverage": map[string]interface{}{
			"obligations":                           len(sel) - len(known),
			"discharged":                            len(discharged),
			"checker_cmd":                           fmt.Sprintf("./check %s %s", prop, tier),
			"trusted_base":                          trustedBase,
			"samples":                               samples,
			"functions_under_contract":              fns,
			"helpers_decided_at_call_sites":         rd.eng.inlineOnly,
			"contracts_following_renamed_functions": rd.eng.renamedNotes,
			"per_obligation":                        recs,
			"backends":                              backends,
			"solver_time_s":                         float64(solverMs) / 1000,
			"solve_wall_s":                          solveSecs,
			"load_ssa_s":                            rd.eng.loadSecs,
			"known_finding_obligations":             knownNames,
			"violating_obligations":                 violNames,
			"vacuity":                               map[string]int{"cover_points": coversTotal, "satisfiable": coversReached},
			"engine_notes":                          notes,
			"total_obligations_all_props":           len(rd.obls),
			"contract_file":                         rd.eng.cs.Path,
			"contract_lines":                        rd.eng.cs.NLines,
		},
		"assumptions": assumptions,
	}
	_ = os.MkdirAll(filepath.Join(verifDir, "evidence"), 0o755)
	b, _ := json.MarshalIndent(ev, "", " ")
	_ = os.WriteFile(filepath.Join(verifDir, "evidence", prop+".json"), b, 0o644)
}

var extraEvidence map[string]interface{}

// thoroughExtras: replays of the listed findings, must-fail / must-pass
// corpora restricted to the property, reachability of every obligation
// part, contract copy check.
func thoroughExtras(rd *runData, repo, prop string, kf *KnownFindings, sel []*Obligation, work string) map[string]interface{} {
	out := map[string]interface{}{}
	// 1. replays of listed findings
	seen := map[string]bool{}
	var replays []map[string]interface{}
	for _, f := range kf.Findings {
		match := f.Property == prop
		for _, p := range f.Properties {
			if p == prop {
				match = true
			}
		}
		if !match || f.Replay == "" || seen[f.Replay] {
			continue
		}
		seen[f.Replay] = true
		m := knownRE.FindStringSubmatch(f.Replay)
		if m == nil {
			continue
		}
		file := m[1]
		if !filepath.IsAbs(file) {
			file = filepath.Join(verifDir, file)
		}
		_, failed, err := runOverlayTest(repo, file, m[2], strings.Contains(m[2], "_Race_"), 120*time.Second)
		rec := map[string]interface{}{"replay": f.Replay, "reproduces": failed}
		if err != nil {
			rec["error"] = err.Error()
		}
		if !failed {
			fmt.Printf("STALE-FINDING: property=%s %s: its replay %s no longer reproduces on this tree\n", prop, f.Obligation, f.Replay)
		}
		replays = append(replays, rec)
	}
	out["known_finding_replays"] = replays
	// 2. reachability of every obligation part
	dead, total := 0, 0
	var deadNames []string
	for _, ob := range sel {
		if ob.Kind != "smt" {
			continue
		}
		for i, part := range ob.Parts {
			total++
			file := filepath.Join(work, fmt.Sprintf("pc_%s_%d.smt2", sanitize(ob.Name), i))
			_ = os.WriteFile(file, []byte(ob.Unit.query(part, false)), 0o644)
			v, _, _ := runSolver(solvers[0], file, 10, 0)
			if v == "unsat" {
				dead++
				deadNames = append(deadNames, fmt.Sprintf("%s#%d", ob.Name, i))
			}
		}
	}
	out["obligation_parts"] = total
	out["unreachable_parts"] = dead
	out["unreachable_part_names"] = deadNames
	// 3. corpora
	self, _ := os.Executable()
	cmd := exec.Command(self, "selftest", prop)
	cmd.Env = append(os.Environ(), "VERIF_REPO="+repo)
	b, _ := cmd.CombinedOutput()
	var lines []string
	for _, l := range strings.Split(string(b), "\n") {
		if strings.HasPrefix(l, "SELFTEST") || strings.HasPrefix(l, "selftest:") {
			lines = append(lines, l)
			if strings.HasPrefix(l, "SELFTEST-MISS") || strings.HasPrefix(l, "SELFTEST-FALSE-ALARM") {
				fmt.Println(l)
			}
		}
	}
	out["selftest"] = lines
	// 4. contract copy
	a, _ := os.ReadFile(filepath.Join(repo, "leader", "verif_contracts.go"))
	c, _ := os.ReadFile(filepath.Join(verifDir, "contracts", "verif_contracts.go"))
	out["contract_copy_identical"] = string(a) == string(c)
	if string(a) != string(c) {
		fmt.Println("NOTE: /verif/contracts/verif_contracts.go differs from /repo/leader/verif_contracts.go")
	}
	return out
}

var trustedBase = []string{
	"go/packages + go/types + go/ssa (golang.org/x/tools v0.50.0): the verified text is the SSA form built from /repo's working tree on this run",
	"govc VC generator (this repository, /verif/govc): symbolic execution, heap/lock/interference model, contract evaluation",
	"SMT solvers: z3 5.1.0 (z3-new), cvc5 1.0.x, z3 4.8.12",
	"assumed contracts on interfaces and library functions (sections 'iface' of leader/verif_contracts.go and DESIGN.md §7)",
}

func assumptionsFor(prop string) []string {
	base := []string{
		"store contract (KeyValue/Entry/Watcher) as stated in the iface blocks of the contract file: assumed, not checked (this is C14's statement)",
		"sync.Mutex/RWMutex/WaitGroup/Once and sync/atomic have their documented semantics; atomics are sequentially consistent",
		"user-supplied Logger/Metrics/HealthChecker/callbacks do not call back into the election while it holds a lock",
		"interference model: every read of a shared atomic field outside its writer lock yields an arbitrary value satisfying the declared field invariant",
	}
	return base
}

var _ = ssa.NewProgram
