package main

import (
	"fmt"
	"go/types"
	"strings"

	"golang.org/x/tools/go/ssa"
)

// lockKeyOfPtr: "kvElection.mu" for &e.mu
func lockKeyOfPtr(p *PtrV) string { return pathKey(p.Root, p.Path) }

func (u *Unit) conditionally(st *State, cond Term, f func(sub *State)) {
	if cond.IsFalse() {
		return
	}
	if cond.IsTrue() {
		f(st)
		return
	}
	t := st.clone()
	t.pc = u.define(And(st.pc, cond), "pc")
	f(t)
	e := st.clone()
	e.pc = u.define(And(st.pc, Not(cond)), "pc")
	m := u.mergeStates([]edgeState{{nil, t}, {nil, e}})
	*st = *m
}

func (u *Unit) intrinsic(fr *Frame, st *State, fn *ssa.Function, args []Val, where string) Val {
	name := fn.String()
	sig := fn.Signature
	pkgPath := ""
	if fn.Pkg != nil {
		pkgPath = fn.Pkg.Pkg.Path()
	}
	if !strings.HasPrefix(pkgPath, "go.uber.org/zap") {
		u.assumedUsed["library "+name]++
	}
	switch name {
	case "(*sync.RWMutex).Lock", "(*sync.Mutex).Lock":
		u.lockOp(fr, st, args[0], 2, where)
		return nil
	case "(*sync.RWMutex).RLock":
		u.lockOp(fr, st, args[0], 1, where)
		return nil
	case "(*sync.RWMutex).Unlock", "(*sync.Mutex).Unlock":
		u.unlockOp(fr, st, args[0], 2, where)
		return nil
	case "(*sync.RWMutex).RUnlock":
		u.unlockOp(fr, st, args[0], 1, where)
		return nil
	case "(*sync.WaitGroup).Add":
		t := u.termOf(args[1])
		cur, ok := st.ghost["wgadd"]
		if !ok {
			cur = TZero
		}
		st.ghost["wgadd"] = u.define(Arith("+", cur, t), "wg")
		u.event(fr, st, "call wg.Add", map[string]Val{"n": args[1]}, where)
		return nil
	case "(*sync.WaitGroup).Done":
		u.event(fr, st, "call wg.Done", nil, where)
		return nil
	case "(*sync.WaitGroup).Wait":
		u.event(fr, st, "call wg.Wait", nil, where)
		return nil
	case "(*sync.Once).Do":
		p, _ := args[0].(*PtrV)
		key := "once:?"
		base := TZero
		if p != nil {
			key = "once:" + pathKey(p.Root, p.Path)
			base = p.Base
		}
		arr, ok := st.ghost[key]
		if !ok {
			arr = u.ghostDefault(key)
			st.ghost[key] = arr
		}
		done := SelectA(arr, base)
		u.conditionally(st, Not(done), func(sub *State) {
			if c, ok := args[1].(*ClosureV); ok {
				u.onceDepth++
				u.callFunction(fr, sub, c.Fn.(*ssa.Function), c.Binds, nil, where, false)
				u.onceDepth--
			}
			a2 := sub.ghost[key]
			sub.ghost[key] = u.define(StoreA(a2, base, TTrue), "once")
		})
		return nil

	case "(*sync/atomic.Bool).Load", "(*sync/atomic.Uint64).Load", "(*sync/atomic.Int32).Load", "(*sync/atomic.Value).Load":
		return u.atomicLoad(fr, st, args[0], sig.Results().At(0).Type(), where)
	case "(*sync/atomic.Bool).Store", "(*sync/atomic.Uint64).Store", "(*sync/atomic.Int32).Store", "(*sync/atomic.Value).Store":
		u.atomicStore(fr, st, args[0], args[1], where)
		return nil
	case "(*sync/atomic.Int32).Add", "(*sync/atomic.Int64).Add", "(*sync/atomic.Uint32).Add", "(*sync/atomic.Uint64).Add":
		cur := u.atomicLoad(fr, st, args[0], sig.Results().At(0).Type(), where)
		nv := &Scalar{T: u.define(Arith("+", u.termOf(cur), u.termOf(args[1])), "added"), Typ: sig.Results().At(0).Type()}
		u.atomicStore(fr, st, args[0], nv, where)
		return nv
	case "(*sync/atomic.Int64).Load", "(*sync/atomic.Uint32).Load":
		return u.atomicLoad(fr, st, args[0], sig.Results().At(0).Type(), where)
	case "(*sync/atomic.Int64).Store", "(*sync/atomic.Uint32).Store":
		u.atomicStore(fr, st, args[0], args[1], where)
		return nil
	case "(*sync/atomic.Bool).Swap", "(*sync/atomic.Int32).Swap", "(*sync/atomic.Int64).Swap", "(*sync/atomic.Uint32).Swap", "(*sync/atomic.Uint64).Swap":
		// one indivisible step: the previous value is returned, the new one stored
		cur := u.atomicLoad(fr, st, args[0], sig.Results().At(0).Type(), where)
		u.atomicStore(fr, st, args[0], args[1], where)
		return cur
	case "(*sync/atomic.Bool).CompareAndSwap", "(*sync/atomic.Int32).CompareAndSwap", "(*sync/atomic.Int64).CompareAndSwap", "(*sync/atomic.Uint32).CompareAndSwap", "(*sync/atomic.Uint64).CompareAndSwap":
		// one indivisible step: swapped iff the current value equals old; the stored value is new then, unchanged otherwise
		et := sig.Params().At(0).Type()
		cur := u.atomicLoad(fr, st, args[0], et, where)
		var swapped Term
		if u.termOf(cur).Sort == SBool {
			swapped = Eq(u.boolOf(cur), u.boolOf(args[1]))
		} else {
			swapped = Eq(u.termOf(cur), u.termOf(args[2-1]))
		}
		swapped = u.define(swapped, "cas")
		nv := u.mergeVals(swapped, args[2], cur)
		u.atomicStore(fr, st, args[0], nv, where)
		return &Scalar{T: swapped, Typ: types.Typ[types.Bool]}

	case "context.Background":
		return &Scalar{T: u.sentinel("context.Background"), Typ: sig.Results().At(0).Type(), Origin: "ctx:background"}
	case "context.WithCancel", "context.WithTimeout":
		parent := u.termOf(args[0])
		u.oblige("nopanic.nil_parent_ctx", []string{"C09"}, "", st.pc, Not(Eq(parent, TZero)), where, "context.With* panics on a nil parent")
		c := u.fresh(SInt, "ctx")
		u.fact(fmt.Sprintf("(assert (> %s 0))", c.S))
		u.assume(st.pc, Eq(App(SInt, "CtxParent", c), parent))
		u.assume(st.pc, Not(Eq(c, parent))) // a derived context is a new object
		u.assume(st.pc, Not(SelectA(u.cancelledArr(st), c)))
		ctxV := &Scalar{T: c, Typ: sig.Results().At(0).Type(), Origin: "ctx:derived", Aux: args[0]}
		cancel := &Scalar{T: u.fresh(SInt, "cancelfn"), Typ: sig.Results().At(1).Type(), Origin: "cancel", Aux: ctxV}
		u.fact(fmt.Sprintf("(assert (> %s 0))", cancel.T.S))
		u.assume(TTrue, Eq(App(SInt, "CancelTarget", cancel.T), c))
		m := map[string]Val{"parent": args[0], "result0": ctxV, "result1": cancel}
		if name == "context.WithTimeout" {
			u.assume(st.pc, Eq(App(SInt, "CtxTimeout", c), u.termOf(args[1])))
			m["d"] = args[1]
		}
		u.event(fr, st, "call "+name, m, where)
		return &TupleV{Vs: []Val{ctxV, cancel}}

	case "time.NewTicker":
		d := u.termOf(args[0])
		u.oblige("nopanic.ticker_period", []string{"C13"}, "", st.pc, Cmp(">", d, TZero), where, "time.NewTicker panics on a non-positive period")
		tk := u.fresh(SInt, "ticker")
		u.fact(fmt.Sprintf("(assert (> %s 0))", tk.S))
		u.event(fr, st, "call time.NewTicker", map[string]Val{"d": args[0]}, where)
		return &Scalar{T: tk, Typ: sig.Results().At(0).Type(), Origin: "ticker", Aux: args[0]}
	case "time.After":
		u.event(fr, st, "call time.After", map[string]Val{"d": args[0]}, where)
		return &Scalar{T: u.fresh(SInt, "afterch"), Typ: sig.Results().At(0).Type(), Origin: "after", Aux: args[0]}
	case "time.NewTimer":
		// a one-shot timer is the same time-box as time.After(d); its channel is the C field
		u.event(fr, st, "call time.NewTimer", map[string]Val{"d": args[0]}, where, "call time.After")
		tm := u.fresh(SInt, "timer")
		u.fact(fmt.Sprintf("(assert (> %s 0))", tm.S))
		return &Scalar{T: tm, Typ: sig.Results().At(0).Type(), Origin: "timer", Aux: args[0]}
	case "time.AfterFunc":
		m := map[string]Val{"d": args[0], "f": args[1]}
		u.event(fr, st, "call time.AfterFunc", m, where)
		if c, ok := args[1].(*ClosureV); ok {
			u.forkRun(fr, st, c.Fn.(*ssa.Function), c.Binds, nil, where, "timer")
		}
		tm := u.fresh(SInt, "timer")
		u.fact(fmt.Sprintf("(assert (> %s 0))", tm.S))
		return &Scalar{T: tm, Typ: sig.Results().At(0).Type(), Origin: "timer"}
	case "(*time.Ticker).Stop":
		u.event(fr, st, "call Ticker.Stop", nil, where)
		return nil
	case "(*time.Timer).Stop":
		u.event(fr, st, "call Timer.Stop", map[string]Val{"t": args[0]}, where)
		return u.freshVal(types.Typ[types.Bool], "stopped", st.pc)
	case "time.Now":
		// a reading of the clock: an event, so that contracts can say which reading a stored time is
		res := u.freshResults(sig, "time", st.pc)
		u.event(fr, st, "ret time.Now", map[string]Val{"result": res}, where)
		return res
	case "time.Until":
		res := u.freshResults(sig, "time", st.pc)
		u.event(fr, st, "ret time.Until", map[string]Val{"t": args[0], "result": res}, where)
		return res
	case "time.Since", "(time.Time).IsZero", "(time.Duration).Seconds":
		return u.freshResults(sig, "time", st.pc)
	case "time.Sleep":
		u.event(fr, st, "call time.Sleep", map[string]Val{"d": args[0]}, where)
		return nil

	case "encoding/json.Marshal":
		return u.jsonMarshal(fr, st, args[0], sig, where)
	case "encoding/json.Unmarshal":
		return u.jsonUnmarshal(fr, st, args[0], args[1], sig, where)

	case "github.com/google/uuid.New":
		// a random (version 4) UUID: the only source of tokens that have never appeared before
		v := u.freshVal(sig.Results().At(0).Type(), "uuid", st.pc)
		if u.randomUUID == nil {
			u.randomUUID = map[Val]bool{}
		}
		u.randomUUID[v] = true
		return v
	case "(github.com/google/uuid.UUID).String", "github.com/google/uuid.NewString":
		random := name == "github.com/google/uuid.NewString" || (len(args) > 0 && u.randomUUID[args[0]])
		s := u.fresh(SInt, "uuidstr")
		u.fact(fmt.Sprintf("(assert (> %s 1000000))", s.S)) // distinct from "" and every literal
		origin := ""
		if random {
			u.assume(TTrue, App(SBool, "FreshTok", s))
			origin = "uuid"
		}
		rb := TFalse
		if random {
			rb = TTrue
		}
		u.event(fr, st, "call uuid.String", map[string]Val{"result": &Scalar{T: s, Typ: types.Typ[types.String]}, "random": &Scalar{T: rb, Typ: types.Typ[types.Bool]}}, where)
		return &Scalar{T: s, Typ: types.Typ[types.String], Origin: origin}

	case "fmt.Errorf":
		return u.fmtErrorf(fr, st, args, sig, where)
	case "errors.New":
		r := u.fresh(SInt, "errnew")
		u.fact(fmt.Sprintf("(assert (> %s 1000000))", r.S))
		u.assume(TTrue, Eq(App(SInt, "ErrMsg", r), u.termOf(args[0])))
		return &Scalar{T: r, Typ: sig.Results().At(0).Type()}
	case "(*strings.Builder).WriteString", "(*strings.Builder).WriteByte", "(*strings.Builder).WriteRune", "(*strings.Builder).Write":
		// the builder's text only grows: what it held before and what is written now are both part of it afterwards
		if key, ok := builderKey(args[0]); ok {
			nw := u.fresh(SInt, "sbtext")
			u.strIncludes(st.pc, nw, u.builderText(st, key))
			if name == "(*strings.Builder).WriteString" {
				u.strIncludes(st.pc, nw, u.termOf(args[1]))
			}
			st.ghost["sb:"+key] = u.define(Ite(st.pc, nw, u.builderText(st, key)), "sb")
		}
		return u.freshResults(sig, "sbw", st.pc)
	case "(*strings.Builder).String":
		if key, ok := builderKey(args[0]); ok {
			return &Scalar{T: u.builderText(st, key), Typ: types.Typ[types.String]}
		}
		return u.freshResults(sig, "sbs", st.pc)
	case "fmt.Fprintf":
		// into a strings.Builder: as Sprintf, appended to the builder's text
		if w, ok := args[0].(*Scalar); ok {
			if key, ok := builderKey(w.Aux); ok {
				nw := u.fresh(SInt, "sbtext")
				u.strIncludes(st.pc, nw, u.builderText(st, key))
				u.sprintfIncludes(st, nw, args[1:])
				st.ghost["sb:"+key] = u.define(Ite(st.pc, nw, u.builderText(st, key)), "sb")
				return u.freshResults(sig, "fpr", st.pc)
			}
		}
		u.unmodelled["fmt.Fprintf(non-builder)"]++
		return u.freshResults(sig, "fpr", st.pc)
	case "fmt.Sprintf":
		// the result includes the text of every string and error argument (whatever the verb): enough to follow
		// the catalogue patterns through the library's own error messages
		r := u.fresh(SInt, "sprintf")
		u.sprintfIncludes(st, r, args)
		return &Scalar{T: r, Typ: types.Typ[types.String]}
	case "errors.Is":
		a, b := u.termOf(args[0]), u.termOf(args[1])
		r := App(SBool, "ErrIs", a, b)
		u.assume(TTrue, And(Implies(Eq(a, TZero), Not(r)), Implies(And(Eq(a, b), Not(Eq(a, TZero))), r)))
		if s, ok := args[1].(*Scalar); ok && strings.HasPrefix(s.Origin, "global:") {
			u.sentinel(s.Origin[7:])
		}
		// %w wrappers built in this activation: Is looks through them
		for _, w := range u.wrapFacts {
			inner := TFalse
			if w[1].S != "0" {
				inner = App(SBool, "ErrIs", w[1], b)
			}
			u.assume(TTrue, Eq(App(SBool, "ErrIs", w[0], b), Or(Eq(w[0], b), inner)))
		}
		return &Scalar{T: r, Typ: types.Typ[types.Bool]}
	case "errors.As":
		// errors.As(err, &target): ErrAs(err, typeid of *target)
		a := u.termOf(args[0])
		tid := TZero
		var tp *PtrV
		if ts, ok := args[1].(*Scalar); ok {
			if p, ok := ts.Aux.(*PtrV); ok {
				tp = p
				tid = u.eng.typeID(p.Elem)
			}
		}
		r := App(SBool, "ErrAs", a, tid)
		u.assume(TTrue, And(Implies(Eq(a, TZero), Not(r)), Implies(And(Not(Eq(a, TZero)), Eq(App(SInt, "typeof", a), tid)), r)))
		if tp != nil {
			old := u.loadPtr(fr, st, tp, where)
			nv := &Scalar{T: Ite(r, App(SInt, "ErrAsVal", a, tid), u.termOf(old)), Typ: tp.Elem}
			u.storePtr(fr, st, tp, nv, where)
		}
		return &Scalar{T: r, Typ: types.Typ[types.Bool]}
	case "strings.ToLower":
		return &Scalar{T: App(SInt, "StrLower", u.termOf(args[0])), Typ: types.Typ[types.String]}
	case "strings.Contains":
		return &Scalar{T: App(SBool, "StrContains", u.termOf(args[0]), u.termOf(args[1])), Typ: types.Typ[types.Bool]}
	case "math.Pow":
		x, y := ToReal(u.termOf(args[0])), ToReal(u.termOf(args[1]))
		r := App(SReal, "Pow", x, y)
		u.assume(TTrue, And(
			Implies(And(Cmp(">=", x, Term{"1.0", SReal}), Cmp(">=", y, Term{"0.0", SReal})), Cmp(">=", r, Term{"1.0", SReal})),
			Implies(Cmp(">", x, Term{"0.0", SReal}), Cmp(">", r, Term{"0.0", SReal}))))
		return &Scalar{T: r, Typ: types.Typ[types.Float64]}
	case "math/rand/v2.Float64":
		r := u.fresh(SReal, "rnd")
		u.fact(fmt.Sprintf("(assert (and (<= 0.0 %s) (< %s 1.0)))", r.S, r.S))
		u.event(fr, st, "call rand.Float64", map[string]Val{"result": &Scalar{T: r, Typ: types.Typ[types.Float64]}}, where)
		return &Scalar{T: r, Typ: types.Typ[types.Float64]}
	}
	if strings.HasPrefix(pkgPath, "go.uber.org/zap") {
		return u.freshResults(sig, "zap", st.pc)
	}
	// unknown external function: fresh results, no effect on election state; what it can reach through a pointer
	// to a local (also one wrapped in an interface value: Decode(&v)) is arbitrary afterwards
	u.unmodelled[name]++
	for _, a := range args {
		var p *PtrV
		switch x := a.(type) {
		case *PtrV:
			p = x
		case *Scalar:
			p, _ = x.Aux.(*PtrV)
		}
		if p != nil && p.Cell != nil && p.Elem != nil && !strings.HasPrefix(p.Cell.Name, "G:") {
			u.storeCell(st, p.Cell, p.Path, p.Elem, u.freshVal(p.Elem, "written_by_callee", st.pc))
			continue
		}
		// a reference to a struct allocated by this activation (a local whose address escapes)
		ref, _ := a.(*Scalar)
		if ref != nil {
			if inner, ok := ref.Aux.(*Scalar); ok {
				ref = inner
			}
			if ref.Typ != nil && isOwnAlloc(ref.T) {
				if q := u.structRef(ref, ref.Typ); q != nil {
					u.storeHeap(fr, st, q, u.freshVal(q.Elem, "written_by_callee", st.pc), where)
				}
			}
		}
	}
	var names []string
	if sig.Recv() != nil {
		names = append(names, "recv")
	}
	for i := 0; i < sig.Params().Len(); i++ {
		names = append(names, sig.Params().At(i).Name())
	}
	short := name
	if fn.Pkg != nil {
		short = fn.Pkg.Pkg.Name() + "." + fn.Name()
		if recv := sig.Recv(); recv != nil {
			short = typeString(recv.Type()) + "." + fn.Name()
		}
	}
	m := bindArgs(names, args)
	u.event(fr, st, "call "+short, m, where)
	res := u.freshResults(sig, "ext", st.pc)
	bindResult(m, res)
	u.event(fr, st, "ret "+short, m, where)
	return res
}

// ---------------------------------------------------------------- locks

func (u *Unit) lockOp(fr *Frame, st *State, pv Val, mode int64, where string) {
	p, ok := pv.(*PtrV)
	if !ok || p.Cell != nil {
		u.note("lock on non-heap mutex in %s", fr.key)
		return
	}
	lk := lockKeyOfPtr(p)
	held := u.heldTerm(st, lk, p.Base)
	u.oblige("lock.no_reentry("+lk+")", []string{"C09", "C11", "C13", "C03", "C06", "C04", "C08", "C12"}, "", st.pc, Eq(held, TZero), where, "acquiring "+lk+" while this activation already holds it")
	u.lockOrder(st, lk, "", where)
	// interference: fields protected by the lock may have changed before we got it
	u.havocProtected(st, p, lk, "acq")
	arr := st.ghost["held:"+lk]
	st.ghost["held:"+lk] = u.define(StoreA(arr, p.Base, IntLit(mode)), "held")
	u.bump(st, "nheld:"+lk, 1)
	st.acq = append(append([]acqRec{}, st.acq...), acqRec{lk, p.Base})
	// the lock invariant holds on acquisition
	this := &Scalar{T: p.Base, Typ: types.NewPointer(p.RTyp)}
	for _, li := range u.eng.cs.LockInvs {
		if li.Lock != lk {
			continue
		}
		env := u.newEnv(fr, st, u.entry)
		env.this = this
		env.callee = true
		u.assume(st.pc, u.evalBool(env, li.Clause.Expr))
	}
	u.covers = append(u.covers, coverPoint{"lockinv@" + u.curKey() + ":" + lk, st.pc, len(u.lines)})
	u.event(fr, st, "lock "+lk, map[string]Val{"base": this}, where)
}

// havocProtected forgets the values of the fields protected by lock lk at
// object p.Base (on acquisition: others may have changed them; on release:
// others may change them from now on).
func (u *Unit) havocProtected(st *State, p *PtrV, lk string, hint string) {
	if isOwnAlloc(p.Base) {
		return
	}
	for _, key := range sortedKeys(u.eng.cs.Fields) {
		fd := u.eng.cs.Fields[key]
		if u.lockKeyFor(fd) != lk || fd.Class == "immutable" {
			continue
		}
		i := strings.Index(key, ".")
		path := strings.Split(key[i+1:], ".")
		if fd.Class == "ghost" {
			arr := u.heapArr(st, key, fd.Sort)
			nv := u.fresh(fd.Sort, hint+"_"+path[len(path)-1])
			if fd.Mono {
				u.assume(st.pc, Implies(SelectA(arr, p.Base), nv))
			}
			st.heap[key] = u.define(StoreA(arr, p.Base, nv), "Hl")
			continue
		}
		lt := u.fieldType(p.RTyp, path)
		if lt == nil {
			continue
		}
		u.leavesOf(lt, path, func(lp []string, ltt types.Type) {
			k := pathKey(p.Root, lp)
			arr := u.heapArr(st, k, u.leafSort(ltt))
			nv := u.fresh(u.leafSort(ltt), hint+"_"+lp[len(lp)-1])
			if typeString(ltt) != "atomic.Value" {
				u.typeFacts(nv, ltt)
			}
			st.heap[k] = u.define(StoreA(arr, p.Base, nv), "Hl")
		})
	}
}

func (u *Unit) fieldType(root types.Type, path []string) types.Type {
	return typeAt(root, path, u.eng)
}

func (u *Unit) leavesOf(t types.Type, prefix []string, f func(path []string, lt types.Type)) {
	if st, ok := u.eng.transparent(t); ok {
		for i := 0; i < st.NumFields(); i++ {
			u.leavesOf(st.Field(i).Type(), append(append([]string{}, prefix...), st.Field(i).Name()), f)
		}
		return
	}
	f(prefix, t)
}

func (u *Unit) unlockOp(fr *Frame, st *State, pv Val, mode int64, where string) {
	p, ok := pv.(*PtrV)
	if !ok || p.Cell != nil {
		return
	}
	lk := lockKeyOfPtr(p)
	held := u.heldTerm(st, lk, p.Base)
	u.oblige("lock.unlock_held("+lk+")", []string{"C09", "C11", "C13", "C03", "C06", "C04", "C08", "C12"}, "", st.pc, Eq(held, IntLit(mode)), where, "unlock of a lock not held in that mode")
	this := &Scalar{T: p.Base, Typ: types.NewPointer(p.RTyp)}
	u.event(fr, st, "unlock "+lk, map[string]Val{"base": this}, where)
	if mode == 2 {
		for _, li := range u.eng.cs.LockInvs {
			if li.Lock != lk {
				continue
			}
			env := u.newEnv(fr, st, u.entry)
			env.this = this
			env.callee = true
			env.callee = true
			g := u.evalBool(env, li.Clause.Expr)
			u.oblige("lockinv("+lk+")."+li.Clause.Label, propList(li.Clause.Prop), "", st.pc, g, where, li.Clause.Src)
		}
	}
	arr := st.ghost["held:"+lk]
	st.ghost["held:"+lk] = u.define(StoreA(arr, p.Base, TZero), "held")
	u.bump(st, "nheld:"+lk, -1)
	u.havocProtected(st, p, lk, "rel")
}

// ---------------------------------------------------------------- atomics

func (u *Unit) atomicLoad(fr *Frame, st *State, pv Val, rt types.Type, where string) Val {
	p, ok := pv.(*PtrV)
	if !ok {
		return u.freshVal(rt, "aload", st.pc)
	}
	if p.Cell != nil {
		return u.loadCell(st, p.Cell, p.Path, rt)
	}
	key := pathKey(p.Root, p.Path)
	fd := u.eng.fieldDecl(p.Root, p.Path)
	isValue := typeString(p.Elem) == "atomic.Value"
	sort := u.leafSort(p.Elem)
	arr := u.heapArr(st, key, sort)
	cur := SelectA(arr, p.Base)
	val := cur
	if fd == nil {
		u.structural("field.declared("+key+")", []string{"C20"}, "", false, where, "atomic field "+key+" has no declaration in the contract file")
	}
	if fd != nil && !isOwnAlloc(p.Base) {
		switch {
		case fd.Class == "owned_by":
			okk := false
			for _, o := range fd.Owners {
				if o == bareName(u.curKey()) || o == bareName(u.rootKey) {
					okk = true
				}
			}
			u.structural("frame.owned("+key+")", propsOfField(fd, "C20"), "", okk, where, "access to "+key+" from non-owner "+u.curKey())
		default:
			nv := u.fresh(sort, "a_"+p.Path[len(p.Path)-1])
			if !isValue {
				u.typeFacts(nv, rt)
			}
			if lk := u.lockKeyFor(fd); lk != "" {
				held := u.heldTerm(st, lk, p.Base)
				val = u.define(Ite(Cmp(">=", held, IntLit(1)), cur, nv), "ald")
			} else {
				val = nv
			}
			if fd.Inv != nil {
				env := u.newEnv(fr, st, u.entry)
				env.vars["v"] = &Scalar{T: val, Typ: rt}
				env.this = &Scalar{T: p.Base, Typ: types.NewPointer(p.RTyp)}
				env.callee = true
				env.callee = true
				u.assume(st.pc, u.evalBool(env, fd.Inv.Expr))
			}
		}
	}
	out := &Scalar{T: val, Typ: rt, Origin: "field:" + key}
	u.event(fr, st, "load "+key, map[string]Val{"value": out}, where)
	if isValue {
		at := "?"
		if fd != nil && fd.AType != "" {
			at = fd.AType
		}
		if at == "?" {
			// an atomic.Value the contract file says nothing about: any value of any type, or none
			i := u.fresh(SInt, "aval")
			u.fact(fmt.Sprintf("(assert (>= %s 0))", i.S))
			return &Scalar{T: i, Typ: rt, Origin: "field:" + key}
		}
		tid := u.eng.typeIDName(at)
		i := u.define(App(SInt, "mk", tid, val), "aval")
		u.assume(TTrue, And(Eq(App(SInt, "typeof", i), tid), Eq(App(SInt, "pay", i), val), Cmp(">", i, TZero)))
		return &Scalar{T: i, Typ: rt, Origin: "field:" + key, Aux: &Scalar{T: val, Typ: types.Typ[types.String]}}
	}
	return out
}

func (u *Unit) atomicStore(fr *Frame, st *State, pv Val, v Val, where string) {
	p, ok := pv.(*PtrV)
	if !ok {
		return
	}
	if p.Cell != nil {
		u.storeCell(st, p.Cell, p.Path, p.Elem, v)
		return
	}
	key := pathKey(p.Root, p.Path)
	fd := u.eng.fieldDecl(p.Root, p.Path)
	isValue := typeString(p.Elem) == "atomic.Value"
	t := u.termOf(v)
	stored := v
	if isValue {
		// payload of the interface value
		if s, ok := v.(*Scalar); ok && s.Aux != nil {
			if a, ok := s.Aux.(*Scalar); ok {
				t = a.T
				stored = a
				if fd != nil && fd.AType != "" {
					u.structural("atomic.type_consistent("+key+")", []string{"C20", "C13"}, "", typeString(a.Typ) == fd.AType, where,
						"atomic.Value "+key+" declared to hold "+fd.AType+" is stored a "+typeString(a.Typ))
				}
			} else {
				t = App(SInt, "pay", t)
			}
		} else {
			t = App(SInt, "pay", t)
		}
	}
	if fd != nil && !isOwnAlloc(p.Base) {
		if lk := u.lockKeyFor(fd); lk != "" {
			u.oblige("guarded_store("+key+")", propsOfField(fd, "C18"), "", st.pc, Eq(u.heldTerm(st, lk, p.Base), IntLit(2)), where, "store to "+key+" requires "+lk+" write-held")
		}
		if fd.Class == "owned_by" {
			okk := false
			for _, o := range fd.Owners {
				if o == bareName(u.curKey()) || o == bareName(u.rootKey) {
					okk = true
				}
			}
			u.structural("frame.owned("+key+")", propsOfField(fd, "C20"), "", okk, where, "store to "+key+" from non-owner "+u.curKey())
		}
		if fd.Inv != nil {
			env := u.newEnv(fr, st, u.entry)
			env.vars["v"] = &Scalar{T: t, Typ: stored.(*Scalar).Typ}
			env.this = &Scalar{T: p.Base, Typ: types.NewPointer(p.RTyp)}
			env.callee = true
			props := propsOfField(fd)
			if len(props) == 0 {
				props = propList(fd.Inv.Prop)
			}
			u.oblige("fieldinv("+key+")", props, "", st.pc, u.evalBool(env, fd.Inv.Expr), where, fd.Inv.Src)
		}
		if fd.OnStore != nil {
			env := u.newEnv(fr, st, u.entry)
			env.vars["v"] = &Scalar{T: t, Typ: stored.(*Scalar).Typ}
			env.this = &Scalar{T: p.Base, Typ: types.NewPointer(p.RTyp)}
			env.callee = true
			props := propList(fd.OnStore.Prop)
			if len(props) == 0 {
				props = propsOfField(fd)
			}
			u.oblige("storepolicy("+key+")."+fd.OnStore.Label, props, "", st.pc, u.evalBool(env, fd.OnStore.Expr), where, fd.OnStore.Src)
		}
	}
	arr := u.heapArr(st, key, u.leafSort(p.Elem))
	st.heap[key] = u.define(StoreA(arr, p.Base, t), "Ha")
	u.event(fr, st, "store "+key, map[string]Val{"value": &Scalar{T: t, Typ: types.Typ[types.Int]}, "base": &Scalar{T: p.Base, Typ: types.NewPointer(p.RTyp)}}, where)
}

// ---------------------------------------------------------------- json

func isPayloadStruct(t types.Type) bool { return structRootName(t) == "leadershipPayload" }

func (u *Unit) jsonMarshal(fr *Frame, st *State, v Val, sig *types.Signature, where string) Val {
	bt := sig.Results().At(0).Type()
	et := sig.Results().At(1).Type()
	if s, ok := v.(*Scalar); ok {
		if sv, ok := s.Aux.(*StructV); ok && isPayloadStruct(sv.Typ) && len(sv.F) == 3 {
			id, tok, pr := u.termOf(sv.F[0]), u.termOf(sv.F[1]), u.termOf(sv.F[2])
			b := u.define(App(SInt, "Marshal", id, tok, pr), "bytes")
			// JSON round-trip axioms, instantiated at this term
			mp := App(SInt, "ParseMap", b)
			tokv := App(SInt, "mapget", mp, u.eng.strID("token"))
			idv := App(SInt, "mapget", mp, u.eng.strID("id"))
			strT := u.eng.typeIDName("string")
			u.assume(TTrue, And(
				Eq(App(SInt, "IDOf", b), id), Eq(App(SInt, "TokenOf", b), tok), Eq(App(SInt, "PrioOf", b), pr),
				App(SBool, "ParseOK", b), App(SBool, "ParseMapOK", b), Cmp(">", b, TZero), Cmp(">", App(SInt, "LenOf", b), TZero),
				App(SBool, "IDPresent", b), App(SBool, "TokenPresent", b), Eq(App(SBool, "PrioPresent", b), Not(Eq(pr, TZero))),
				App(SBool, "maphas", mp, u.eng.strID("token")), App(SBool, "maphas", mp, u.eng.strID("id")),
				Eq(App(SInt, "typeof", tokv), strT), Eq(App(SInt, "pay", tokv), tok), Cmp(">", tokv, TZero),
				Eq(App(SInt, "typeof", idv), strT), Eq(App(SInt, "pay", idv), id), Cmp(">", idv, TZero)))
			res := &TupleV{Vs: []Val{&SliceV{T: b, Typ: bt}, &Scalar{T: TZero, Typ: et}}}
			u.event(fr, st, "call json.Marshal", map[string]Val{"v": sv, "result0": res.Vs[0], "result1": res.Vs[1]}, where)
			return res
		}
	}
	u.unmodelled["json.Marshal(non-payload)"]++
	return u.freshResults(sig, "marshal", st.pc)
}

func (u *Unit) jsonUnmarshal(fr *Frame, st *State, data Val, target Val, sig *types.Signature, where string) Val {
	b := u.termOf(data)
	et := sig.Results().At(0).Type()
	errv := u.fresh(SInt, "jsonerr")
	u.fact(fmt.Sprintf("(assert (> %s 1000000))", errv.S))
	ts, _ := target.(*Scalar)
	var p *PtrV
	if ts != nil {
		p, _ = ts.Aux.(*PtrV)
		if p == nil {
			if sc, ok := ts.Aux.(*Scalar); ok && isPointer(sc.Typ) {
				// pointer to a heap object (e.g. &leadershipPayload{} allocated on the heap)
				pt := sc.Typ.Underlying().(*types.Pointer).Elem()
				p = &PtrV{Base: sc.T, Root: structRootName(pt), Elem: pt, RTyp: pt}
			}
		}
	}
	if p == nil {
		u.unmodelled["json.Unmarshal(unknown target)"]++
		return u.freshResults(sig, "unmarshal", st.pc)
	}
	switch {
	case isPayloadStruct(p.Elem):
		ok := App(SBool, "ParseOK", b)
		// encoding/json leaves a struct field untouched when its key is absent:
		// IDOf/TokenOf/PrioOf denote the result of decoding into a ZERO struct,
		// decoding into a used struct keeps the old value of an absent field.
		oldV, _ := u.loadPtr(fr, st, p, where).(*StructV)
		oldT := func(i int) Term {
			if oldV != nil && i < len(oldV.F) {
				return u.termOf(oldV.F[i])
			}
			return TZero
		}
		u.assume(TTrue, And(
			Implies(Not(App(SBool, "IDPresent", b)), Eq(App(SInt, "IDOf", b), TZero)),
			Implies(Not(App(SBool, "TokenPresent", b)), Eq(App(SInt, "TokenOf", b), TZero)),
			Implies(Not(App(SBool, "PrioPresent", b)), Eq(App(SInt, "PrioOf", b), TZero))))
		id := Ite(ok, Ite(App(SBool, "IDPresent", b), App(SInt, "IDOf", b), oldT(0)), u.fresh(SInt, "partial_id"))
		tok := Ite(ok, Ite(App(SBool, "TokenPresent", b), App(SInt, "TokenOf", b), oldT(1)), u.fresh(SInt, "partial_tok"))
		pr := Ite(ok, Ite(App(SBool, "PrioPresent", b), App(SInt, "PrioOf", b), oldT(2)), u.fresh(SInt, "partial_prio"))
		sv := &StructV{Typ: p.Elem, F: []Val{
			&Scalar{T: u.define(id, "pid"), Typ: types.Typ[types.String]},
			&Scalar{T: u.define(tok, "ptok"), Typ: types.Typ[types.String]},
			&Scalar{T: u.define(pr, "pprio"), Typ: types.Typ[types.Int]}}}
		u.storePtr(fr, st, p, sv, where)
		res := &Scalar{T: Ite(ok, TZero, errv), Typ: et}
		u.event(fr, st, "call json.Unmarshal", map[string]Val{"data": data, "result": res}, where)
		return res
	default:
		if _, isMap := p.Elem.Underlying().(*types.Map); isMap {
			ok := App(SBool, "ParseMapOK", b)
			mp := App(SInt, "ParseMap", b)
			// encoding/json keeps the entries of a non-nil target map: only a nil map or one made empty in this
			// activation ends up holding exactly the decoded members
			if cur, isS := u.loadPtr(fr, st, p, where).(*Scalar); !isS || !(cur.Origin == "map" || cur.T.S == "0") {
				u.unmodelled["json.Unmarshal(into a map that may hold entries)"]++
				mp = u.fresh(SInt, "merged_map")
			}
			u.storePtr(fr, st, p, &Scalar{T: u.define(Ite(ok, mp, u.fresh(SInt, "partial_map")), "pmap"), Typ: p.Elem, Origin: "map"}, where)
			res := &Scalar{T: Ite(ok, TZero, errv), Typ: et}
			u.event(fr, st, "call json.Unmarshal", map[string]Val{"data": data, "result": res}, where)
			return res
		}
	}
	u.unmodelled["json.Unmarshal(other target)"]++
	u.storePtr(fr, st, p, u.freshVal(p.Elem, "unmarshalled", st.pc), where)
	return u.freshResults(sig, "unmarshal", st.pc)
}

// ---------------------------------------------------------------- fmt.Errorf

func (u *Unit) fmtErrorf(fr *Frame, st *State, args []Val, sig *types.Signature, where string) Val {
	r := u.fresh(SInt, "errorf")
	u.fact(fmt.Sprintf("(assert (> %s 1000000))", r.S)) // distinct from nil and from every sentinel
	et := sig.Results().At(0).Type()
	out := &Scalar{T: r, Typ: et}
	// locate the %w operand
	var inner Val
	if f, ok := args[0].(*Scalar); ok && isNumLit(f.T.S) {
		var id int
		fmt.Sscan(f.T.S, &id)
		if id < len(u.eng.strs) {
			format := u.eng.strs[id]
			argIdx := -1
			n := 0
			for i := 0; i+1 < len(format); i++ {
				if format[i] != '%' {
					continue
				}
				if format[i+1] == '%' {
					i++
					continue
				}
				j := i + 1
				for j < len(format) && strings.ContainsRune("+-# 0123456789.", rune(format[j])) {
					j++
				}
				if j < len(format) && format[j] == 'w' {
					argIdx = n
				}
				n++
				i = j
			}
			if argIdx >= 0 && len(args) > 1 {
				if sl, ok := args[1].(*SliceV); ok && sl.Cell != nil {
					inner = u.loadCell(st, sl.Cell, []string{fmt.Sprint(argIdx)}, types.NewInterfaceType(nil, nil))
				}
			}
		}
	}
	u.assume(TTrue, Eq(App(SInt, "typeof", r), u.eng.typeIDName("*fmt.wrapError")))
	if inner != nil {
		it := u.termOf(inner)
		u.assume(TTrue, Eq(App(SInt, "Unwrap", r), it))
		out.Aux = inner
		u.wrapFacts = append(u.wrapFacts, [2]Term{r, it})
	} else {
		u.assume(TTrue, Eq(App(SInt, "Unwrap", r), TZero))
		u.wrapFacts = append(u.wrapFacts, [2]Term{r, TZero})
	}
	u.event(fr, st, "call fmt.Errorf", map[string]Val{"result": out, "inner": inner}, where)
	return out
}

// ---------------------------------------------------------------- interface intrinsics

func (u *Unit) intrinsicInvoke(fr *Frame, st *State, full string, recv Val, args []Val, sig *types.Signature, where string, m map[string]Val) (Val, bool) {
	rt := u.termOf(recv)
	switch full {
	case "context.Context.Done":
		return &Scalar{T: App(SInt, "DoneCh", rt), Typ: sig.Results().At(0).Type(), Origin: "ctxdone", Aux: recv}, true
	case "context.Context.Err":
		// observation of the cancellation state: monotone within the activation
		arr := u.cancelledArr(st)
		obs := u.fresh(SBool, "cancobs")
		u.assume(st.pc, Implies(SelectA(arr, rt), obs))
		u.setCancelled(st, rt, obs)
		e := u.fresh(SInt, "ctxerr")
		u.fact(fmt.Sprintf("(assert (>= %s 0))", e.S))
		u.assume(st.pc, Eq(obs, Cmp(">", e, TZero)))
		u.assume(st.pc, Implies(obs, App(SBool, "IsCtxErr", e)))
		res := &Scalar{T: e, Typ: sig.Results().At(0).Type(), Origin: "ctxerr", Aux: recv}
		u.event(fr, st, "ret Context.Err", map[string]Val{"ctx": recv, "result": res}, where)
		return res, true
	case "context.Context.Deadline":
		res := u.freshResults(sig, "ctxdl", st.pc)
		if tv, ok := res.(*TupleV); ok && len(tv.Vs) == 2 {
			u.event(fr, st, "ret Context.Deadline", map[string]Val{"ctx": recv, "result0": tv.Vs[0], "result1": tv.Vs[1]}, where)
		}
		return res, true
	case "context.Context.Value":
		return u.freshResults(sig, "ctxv", st.pc), true
	case "error.Error":
		return &Scalar{T: App(SInt, "ErrMsg", rt), Typ: types.Typ[types.String]}, true
	}
	if strings.HasPrefix(full, "Logger.") {
		u.event(fr, st, "call "+full, m, where)
		return nil, true
	}
	return nil, false
}

// strIncludes: the string whole contains the string part, as far as the catalogue patterns can tell: every pattern
// found in part (lower-cased or not) is found in whole.
// sprintfIncludes: r is the result of formatting args (format first): it includes the literal text between the
// verbs of a constant format and the text of every string and error argument (whatever the verb).
func (u *Unit) sprintfIncludes(st *State, r Term, args []Val) {
	// the literal text between the verbs of a constant format is part of the result
	if fs, ok := args[0].(*Scalar); ok {
		if lit, ok := u.eng.strOf(fs.T); ok {
			for _, chunk := range formatChunks(lit) {
				u.strIncludes(st.pc, r, u.strLit(chunk))
			}
		}
	}
	if len(args) > 1 {
		if sl, ok := args[1].(*SliceV); ok && sl.Cell != nil {
			for i := 0; i < sl.N; i++ {
				av := u.loadCell(st, sl.Cell, []string{fmt.Sprint(i)}, types.NewInterfaceType(nil, nil))
				as, ok := av.(*Scalar)
				if !ok {
					continue
				}
				switch inner := as.Aux.(type) {
				case *Scalar:
					if inner.Typ != nil && isString(inner.Typ) {
						u.strIncludes(st.pc, r, inner.T)
						continue
					}
					if inner.Typ != nil && typeString(inner.Typ) == "error" {
						u.strIncludes(st.pc, r, App(SInt, "ErrMsg", inner.T))
						continue
					}
				case nil:
					// an interface value passed on as it is: an error, most likely
					if as.Typ != nil && typeString(as.Typ) == "error" {
						u.strIncludes(st.pc, r, App(SInt, "ErrMsg", as.T))
					}
				}
			}
		}
	}
}

// builderKey identifies a strings.Builder by the local (or object) it lives in.
func builderKey(v Val) (string, bool) {
	switch p := v.(type) {
	case *PtrV:
		if p.Cell != nil {
			return fmt.Sprintf("c%d.%s", p.Cell.ID, strings.Join(p.Path, ".")), true
		}
		return p.Base.S + "." + strings.Join(p.Path, "."), true
	case *Scalar:
		if p.Aux != nil {
			return builderKey(p.Aux)
		}
		return p.T.S, p.T.S != ""
	}
	return "", false
}

func (u *Unit) builderText(st *State, key string) Term {
	if t, ok := st.ghost["sb:"+key]; ok {
		return t
	}
	return u.strLit("")
}

// formatChunks: the literal pieces of a fmt format string (the text between verbs; %% is dropped with its chunk
// boundary, which only loses text).
func formatChunks(f string) []string {
	var out []string
	cur := ""
	for i := 0; i < len(f); i++ {
		if f[i] != '%' {
			cur += string(f[i])
			continue
		}
		if cur != "" {
			out = append(out, cur)
			cur = ""
		}
		// skip flags, width, precision, argument index, up to and including the verb letter
		i++
		for i < len(f) && !((f[i] >= 'a' && f[i] <= 'z') || (f[i] >= 'A' && f[i] <= 'Z') || f[i] == '%') {
			i++
		}
	}
	if cur != "" {
		out = append(out, cur)
	}
	return out
}

// strLit: the id of a string literal together with the ground facts about which catalogue patterns it contains.
func (u *Unit) strLit(s string) Term {
	id := u.eng.strID(s)
	if u.strLitKnown == nil {
		u.strLitKnown = map[string]bool{}
	}
	if u.strLitKnown[id.S] {
		return id
	}
	u.strLitKnown[id.S] = true
	low := App(SInt, "StrLower", id)
	var cs []Term
	for _, p := range u.eng.cataloguePatterns {
		pt := u.eng.strID(p)
		c1 := App(SBool, "StrContains", id, pt)
		if !strings.Contains(s, p) {
			c1 = Not(c1)
		}
		c2 := App(SBool, "StrContains", low, pt)
		if !strings.Contains(strings.ToLower(s), p) {
			c2 = Not(c2)
		}
		cs = append(cs, c1, c2)
	}
	if len(cs) > 0 {
		u.assume(TTrue, And(cs...))
	}
	return id
}

func (u *Unit) strIncludes(pc Term, whole, part Term) {
	u.assume(pc, u.includesTerm(whole, part))
}

func (u *Unit) includesTerm(whole, part Term) Term {
	// (only pattern-wise: "whole contains part" itself would need transitivity of containment to be useful)
	var cs []Term
	lw, lp := App(SInt, "StrLower", whole), App(SInt, "StrLower", part)
	for _, p := range u.eng.cataloguePatterns {
		pt := u.eng.strID(p)
		cs = append(cs, Implies(App(SBool, "StrContains", lp, pt), App(SBool, "StrContains", lw, pt)))
		cs = append(cs, Implies(App(SBool, "StrContains", part, pt), App(SBool, "StrContains", whole, pt)))
	}
	return And(cs...)
}
