package main

import (
	"fmt"
	"go/token"
	"go/types"
	"os"
	"path/filepath"
	"sort"
	"strings"

	"golang.org/x/tools/go/packages"
	"golang.org/x/tools/go/ssa"
	"golang.org/x/tools/go/ssa/ssautil"
)

type Engine struct {
	prog  *ssa.Program
	pkg   *ssa.Package
	tpkg  *types.Package
	fset  *token.FileSet
	cs    *Contracts
	funcs map[string]*ssa.Function // key -> function (incl. closures)
	keyOf map[*ssa.Function]string
	roots []*ssa.Function
	// contract-less unexported helpers decided only at their call sites
	inlineOnly []string
	// new bare name -> bare name the contracts use, for functions that were renamed
	renamed      map[string]string
	renamedNotes []string
	// package-level slices initialised from a literal of constants and never written afterwards
	constTables  map[string][]ssa.Value // element: *ssa.Const, or the load (*ssa.UnOp) of a package-level sentinel
	strIDs       map[string]int
	inferred     map[string]string // fields of shared structs without a declaration: key -> inferred class
	fieldRenames map[string]string // Struct.old -> new field name, where a contract names a field that was renamed
	strs         []string
	tyIDs        map[string]int
	tys          []string
	repo         string
	// excluded source files (test support, metrics plumbing)
	excluded          map[string]bool
	mayAcq            map[*ssa.Function]map[string]bool
	ifaceImpl         map[string][]*ssa.Function
	loadSecs          float64
	catalogue         []catEntry
	cataloguePatterns []string
}

var excludedFiles = map[string]bool{
	"embedded_nats_server.go": true,
	"test_helpers.go":         true,
	"chaos_test_helpers.go":   true,
	"metrics.go":              true,
}

func LoadEngine(repo string, contractsPath string) (*Engine, error) {
	cfg := &packages.Config{
		Mode:       packages.LoadAllSyntax,
		Dir:        repo,
		BuildFlags: []string{"-tags=verif"},
		Env:        append(os.Environ(), "GOFLAGS=-mod=mod", "GOPROXY=off", "GOTOOLCHAIN=local", "PATH=/opt/veriftools/go1.26.8/bin:"+os.Getenv("PATH")),
	}
	pkgs, err := packages.Load(cfg, "./leader")
	if err != nil {
		return nil, err
	}
	if len(pkgs) != 1 {
		return nil, fmt.Errorf("expected one package, got %d", len(pkgs))
	}
	if len(pkgs[0].Errors) > 0 {
		return nil, fmt.Errorf("package errors: %v", pkgs[0].Errors)
	}
	prog, spkgs := ssautil.AllPackages(pkgs, ssa.InstantiateGenerics)
	prog.Build()
	e := &Engine{prog: prog, fset: prog.Fset, funcs: map[string]*ssa.Function{}, keyOf: map[*ssa.Function]string{},
		strIDs: map[string]int{"": 0}, strs: []string{""}, tyIDs: map[string]int{}, tys: []string{"<nil>"}, repo: repo, excluded: excludedFiles,
		mayAcq: map[*ssa.Function]map[string]bool{}}
	for _, p := range spkgs {
		if p != nil && p.Pkg.Path() == pkgs[0].PkgPath {
			e.pkg = p
			e.tpkg = p.Pkg
		}
	}
	if e.pkg == nil {
		return nil, fmt.Errorf("leader package not found in SSA program")
	}
	if contractsPath == "" {
		contractsPath = filepath.Join(repo, "leader", "verif_contracts.go")
	}
	cs, err := LoadContracts(contractsPath)
	if err != nil {
		return nil, err
	}
	e.cs = cs
	for fn := range ssautil.AllFunctions(prog) {
		// the reference store model (internal/natsmock): functions with a contract are verified too
		if fn.Pkg != nil && fn.Pkg != e.pkg && strings.HasSuffix(fn.Pkg.Pkg.Path(), "internal/natsmock") && fn.Blocks != nil && fn.Synthetic == "" && fn.Parent() == nil {
			k := e.funcKey(fn)
			if _, has := cs.Funcs[k]; has {
				e.funcs[k] = fn
				e.keyOf[fn] = k
				e.roots = append(e.roots, fn)
			}
			continue
		}
		if fn.Pkg != e.pkg || fn.Blocks == nil || fn.Synthetic != "" && !strings.Contains(fn.Name(), "$bound") {
			continue
		}
		file := filepath.Base(e.fset.Position(fn.Pos()).Filename)
		if strings.HasSuffix(file, "_test.go") {
			continue
		}
		k := e.funcKey(fn)
		e.funcs[k] = fn
		e.keyOf[fn] = k
		if fn.Parent() == nil && !e.excluded[file] && fn.Name() != "init" {
			e.roots = append(e.roots, fn)
		}
	}
	// A function under contract that was renamed: the contract follows it when the match is unambiguous (same
	// receiver type, same parameter names as the contract header, no contract of its own, not known before).
	e.renamed = map[string]string{}
	for _, k := range sortedKeys(cs.Funcs) {
		fc := cs.Funcs[k]
		if strings.Contains(k, ":") || strings.Contains(k, "$") {
			continue
		}
		if _, ok := e.funcs[k]; ok {
			continue
		}
		recv := ""
		if i := strings.LastIndex(k, "."); i >= 0 {
			recv = k[:i]
		}
		hdr := fc.Header
		var want []string
		if a, b := strings.LastIndex(hdr, "("), strings.LastIndex(hdr, ")"); a >= 0 && b > a {
			for _, p := range strings.Split(hdr[a+1:b], ",") {
				if p = strings.TrimSpace(p); p != "" {
					want = append(want, p)
				}
			}
		}
		var cands []string
		for ck, fn := range e.funcs {
			if fn.Parent() != nil || fn.Pkg != e.pkg {
				continue
			}
			if _, has := cs.Funcs[ck]; has {
				continue
			}
			crecv := ""
			if i := strings.LastIndex(ck, "."); i >= 0 {
				crecv = ck[:i]
			}
			if crecv != recv {
				continue
			}
			var have []string
			for i, p := range fn.Params {
				if i == 0 && fn.Signature.Recv() != nil {
					continue
				}
				have = append(have, p.Name())
			}
			if strings.Join(have, ",") != strings.Join(want, ",") {
				continue
			}
			// the functions of the package that the contract's own hooks mention must be called by the candidate
			ok := true
			for _, h := range fc.Hooks {
				fs := strings.Fields(h.Event)
				if len(fs) != 2 || (fs[0] != "call" && fs[0] != "ret") {
					continue
				}
				inPkg := false
				for fk := range e.funcs {
					if bareName(fk) == fs[1] {
						inPkg = true
					}
				}
				if inPkg && !staticallyCalls(e, fn, fs[1]) {
					ok = false
				}
			}
			if ok {
				cands = append(cands, ck)
			}
		}
		if len(cands) == 1 {
			nk := cands[0]
			delete(cs.Funcs, k)
			fc.Key = nk
			cs.Funcs[nk] = fc
			e.renamed[bareName(nk)] = bareName(k)
			e.renamedNotes = append(e.renamedNotes, fmt.Sprintf("contract of %s follows the renamed function %s", k, nk))
		}
	}

	// An unexported interface of the package that the contract file does not mention, and whose methods all belong
	// (with identical signatures) to exactly one interface that the contract file does mention, stands for that
	// interface: a store handle narrowed to `interface{ Get(...); Update(...) }` still raises the events of the
	// interface it was narrowed from.
	ifaceAliases = map[string]string{}
	if raw, err := os.ReadFile(e.cs.Path); err == nil {
		text := string(raw)
		mentioned := func(n string) bool {
			return strings.Contains(text, " "+n+".") || strings.Contains(text, "iface "+n+".")
		}
		var cands []*types.TypeName
		scopes := []*types.Package{e.tpkg}
		scopes = append(scopes, e.tpkg.Imports()...)
		for _, tp := range scopes {
			for _, n := range tp.Scope().Names() {
				if tn, ok := tp.Scope().Lookup(n).(*types.TypeName); ok && types.IsInterface(tn.Type()) && mentioned(typeString(tn.Type())) {
					cands = append(cands, tn)
				}
			}
		}
		for _, n := range e.tpkg.Scope().Names() {
			tn, ok := e.tpkg.Scope().Lookup(n).(*types.TypeName)
			if !ok || tn.Exported() || !types.IsInterface(tn.Type()) || mentioned(typeString(tn.Type())) {
				continue
			}
			it, _ := tn.Type().Underlying().(*types.Interface)
			if it == nil || it.NumMethods() == 0 {
				continue
			}
			var hits []string
			for _, c := range cands {
				ci := c.Type().Underlying().(*types.Interface)
				all := true
				for i := 0; i < it.NumMethods() && all; i++ {
					m := it.Method(i)
					obj, _, _ := types.LookupFieldOrMethod(c.Type(), false, m.Pkg(), m.Name())
					if m.Exported() {
						obj, _, _ = types.LookupFieldOrMethod(c.Type(), false, c.Pkg(), m.Name())
					}
					cm, _ := obj.(*types.Func)
					all = cm != nil && types.Identical(cm.Type(), m.Type())
				}
				_ = ci
				if all {
					hits = append(hits, typeString(c.Type()))
				}
			}
			if len(hits) == 1 {
				ifaceAliases[typeString(tn.Type())] = hits[0]
				e.renamedNotes = append(e.renamedNotes, fmt.Sprintf("the unexported interface %s stands for %s (all its methods belong to it)", typeString(tn.Type()), hits[0]))
			}
		}
	}

	// An unexported helper without a contract block that is only ever called directly by other functions of
	// the package is not verified on its own (with arbitrary arguments and lock state): it is inlined at each call
	// site and its obligations are decided there, where the arguments are known. It stays a root if it is used
	// as a value (callback, goroutine entry through a variable) or has no caller at all.
	called := map[*ssa.Function]bool{}
	valued := map[*ssa.Function]bool{}
	for _, fn := range e.funcs {
		for _, b := range fn.Blocks {
			for _, in := range b.Instrs {
				var cc *ssa.CallCommon
				switch x := in.(type) {
				case *ssa.Call:
					cc = &x.Call
				case *ssa.Go:
					cc = &x.Call
				case *ssa.Defer:
					cc = &x.Call
				}
				var callee *ssa.Function
				if cc != nil {
					callee = cc.StaticCallee()
					if callee != nil && callee != fn {
						called[callee] = true
					}
				}
				for _, op := range in.Operands(nil) {
					if op == nil || *op == nil {
						continue
					}
					if f, ok := (*op).(*ssa.Function); ok && f != callee {
						valued[f] = true
					}
					if mc, ok := (*op).(*ssa.MakeClosure); ok {
						if f, ok := mc.Fn.(*ssa.Function); ok && f.Parent() == nil {
							// a method value (x.m): the wrapper's single call is the method itself. Handed straight to
							// sync.Once.Do (or started with go/defer) it runs where it is written, like a direct call;
							// anywhere else the method is used as a value
							if tgt := boundMethodTarget(f); tgt != nil {
								if onlyRunsInPlace(mc) {
									if tgt != fn {
										called[tgt] = true
									}
								} else {
									valued[tgt] = true
								}
								continue
							}
							valued[f] = true
						}
					}
				}
			}
		}
	}
	kept := e.roots[:0]
	for _, fn := range e.roots {
		k := e.keyOf[fn]
		_, hasContract := cs.Funcs[k]
		exported := fn.Object() != nil && fn.Object().Exported()
		if !hasContract && !exported && called[fn] && !valued[fn] && fn.Pkg == e.pkg {
			e.inlineOnly = append(e.inlineOnly, k)
			continue
		}
		kept = append(kept, fn)
	}
	e.roots = kept
	sort.Strings(e.inlineOnly)
	sort.Slice(e.roots, func(i, j int) bool { return e.keyOf[e.roots[i]] < e.keyOf[e.roots[j]] })
	e.findConstTables()
	e.inferFieldClasses()
	if err := e.loadCatalogue(); err != nil {
		return nil, err
	}
	return e, nil
}

func (e *Engine) funcKey(fn *ssa.Function) string {
	root := fn
	for root.Parent() != nil {
		root = root.Parent()
	}
	name := fn.Name()
	if recv := root.Signature.Recv(); recv != nil {
		return typeBaseName(recv.Type()) + "." + name
	}
	return name
}

func typeBaseName(t types.Type) string {
	for {
		switch x := t.(type) {
		case *types.Pointer:
			t = x.Elem()
			continue
		case *types.Named:
			return x.Obj().Name()
		case *types.Alias:
			t = types.Unalias(x)
			continue
		}
		return t.String()
	}
}

func (e *Engine) pos(p token.Pos) string {
	if !p.IsValid() {
		return ""
	}
	ps := e.fset.Position(p)
	rel, err := filepath.Rel(e.repo, ps.Filename)
	if err != nil {
		rel = ps.Filename
	}
	return fmt.Sprintf("%s:%d", rel, ps.Line)
}

// strOf: the text of an interned string literal.
func (e *Engine) strOf(t Term) (string, bool) {
	if !isNumLit(t.S) {
		return "", false
	}
	var id int
	if _, err := fmt.Sscanf(t.S, "%d", &id); err != nil || id < 0 || id >= len(e.strs) {
		return "", false
	}
	return e.strs[id], true
}

func (e *Engine) strID(s string) Term {
	if id, ok := e.strIDs[s]; ok {
		return IntLit(int64(id))
	}
	id := len(e.strs)
	e.strIDs[s] = id
	e.strs = append(e.strs, s)
	return IntLit(int64(id))
}

func (e *Engine) typeID(t types.Type) Term {
	return e.typeIDName(typeString(t))
}

func (e *Engine) typeIDName(s string) Term {
	if id, ok := e.tyIDs[s]; ok {
		return IntLit(int64(id))
	}
	id := len(e.tys)
	e.tyIDs[s] = id
	e.tys = append(e.tys, s)
	return IntLit(int64(id))
}

// typeString gives a short, package-relative name: "*ValidationError",
// "string", "time.Duration", "*nats.Conn".
func typeString(t types.Type) string {
	return types.TypeString(t, func(p *types.Package) string {
		if p.Name() == "leader" {
			return ""
		}
		return p.Name()
	})
}

func sortOf(t types.Type) Sort {
	switch u := t.Underlying().(type) {
	case *types.Basic:
		switch {
		case u.Info()&types.IsBoolean != 0:
			return SBool
		case u.Info()&types.IsFloat != 0:
			return SReal
		}
	}
	return SInt
}

// transparent reports whether values of struct type t are modelled
// field-wise (package-local and anonymous structs); all other structs
// (time.Time, sync.*, atomic.*, zap.Field, ...) are opaque scalars.
func (e *Engine) transparent(t types.Type) (*types.Struct, bool) {
	t = types.Unalias(t)
	st, ok := t.Underlying().(*types.Struct)
	if !ok {
		return nil, false
	}
	if n, ok := t.(*types.Named); ok {
		p := n.Obj().Pkg()
		if p == nil {
			return nil, false
		}
		if p == e.tpkg || strings.HasSuffix(p.Path(), "internal/natsmock") {
			return st, true
		}
		return nil, false
	}
	return st, true
}

func structRootName(t types.Type) string {
	t = types.Unalias(t)
	if n, ok := t.(*types.Named); ok {
		return n.Obj().Name()
	}
	return "anon"
}

func isUnsigned(t types.Type) bool {
	b, ok := t.Underlying().(*types.Basic)
	return ok && b.Info()&types.IsUnsigned != 0
}

func isInteger(t types.Type) bool {
	b, ok := t.Underlying().(*types.Basic)
	return ok && b.Info()&types.IsInteger != 0
}

func isInterface(t types.Type) bool {
	_, ok := t.Underlying().(*types.Interface)
	return ok
}

func isString(t types.Type) bool {
	b, ok := t.Underlying().(*types.Basic)
	return ok && b.Info()&types.IsString != 0
}

// fieldDecl finds the declaration covering a heap path (longest prefix).
func (e *Engine) fieldDecl(root string, path []string) *FieldDecl {
	if len(path) > 0 {
		if i := strings.Index(path[len(path)-1], "#"); i >= 0 {
			path = append(append([]string{}, path[:len(path)-1]...), path[len(path)-1][:i])
		}
	}
	for n := len(path); n >= 1; n-- {
		if fd, ok := e.cs.Fields[pathKey(root, path[:n])]; ok {
			return fd
		}
	}
	return nil
}

// sharedStructs are the struct types whose every field must be declared.
var sharedStructs = []string{"kvElection", "disconnectHandler", "natsConnectionMonitor", "CircuitBreaker", "natsWatcherAdapter", "MockWatcherAdapter"}

// boundMethodTarget: for the synthetic wrapper of a method value, the method it calls.
func boundMethodTarget(f *ssa.Function) *ssa.Function {
	if !strings.Contains(f.Name(), "$bound") {
		return nil
	}
	for _, b := range f.Blocks {
		for _, in := range b.Instrs {
			if c, ok := in.(*ssa.Call); ok {
				if sc := c.Call.StaticCallee(); sc != nil {
					return sc
				}
			}
		}
	}
	return nil
}

// onlyRunsInPlace: every use of the closure value is as the function argument of sync.Once.Do or as the function of a
// go / defer statement.
func onlyRunsInPlace(mc *ssa.MakeClosure) bool {
	refs := mc.Referrers()
	if refs == nil || len(*refs) == 0 {
		return false
	}
	for _, r := range *refs {
		switch x := r.(type) {
		case *ssa.DebugRef:
		case *ssa.Call:
			sc := x.Call.StaticCallee()
			if sc == nil || sc.String() != "(*sync.Once).Do" {
				return false
			}
		case *ssa.Go:
			if x.Call.Value != ssa.Value(mc) {
				return false
			}
		case *ssa.Defer:
			if x.Call.Value != ssa.Value(mc) {
				return false
			}
		default:
			return false
		}
	}
	return true
}

// inferFieldClasses gives every field of a shared struct that the contract file does not declare the class the code
// itself shows (so that a new field is decided by its accesses instead of being reported as undeclared): sync and
// atomic types by their type; a field that is only ever stored through a fresh allocation of the struct in the same
// function (a constructor) and whose address is never taken is immutable; everything else is guarded by the struct's
// mutex field `mu` (every access then has to hold it). Inferred classes are listed in the evidence.
func (e *Engine) inferFieldClasses() {
	e.inferred = map[string]string{}
	for _, sname := range sharedStructs {
		obj := e.tpkg.Scope().Lookup(sname)
		if obj == nil {
			continue
		}
		st, ok := obj.Type().Underlying().(*types.Struct)
		if !ok {
			continue
		}
		hasMu := false
		for i := 0; i < st.NumFields(); i++ {
			if st.Field(i).Name() == "mu" {
				hasMu = true
			}
		}
		// a renamed field keeps its declaration: a declared name that the struct no longer has and an undeclared
		// field of the same type, when that pairing is unique
		have := map[string]bool{}
		for i := 0; i < st.NumFields(); i++ {
			have[st.Field(i).Name()] = true
		}
		var stale []*FieldDecl
		for k, fd := range e.cs.Fields {
			if strings.HasPrefix(k, sname+".") && !strings.Contains(k[len(sname)+1:], ".") && !have[k[len(sname)+1:]] && fd.Class != "ghost" {
				stale = append(stale, fd)
			}
		}
		kindOf := func(ts string) string {
			switch {
			case strings.HasPrefix(ts, "sync/atomic."):
				return "atomic"
			case strings.HasPrefix(ts, "sync."):
				return "sync"
			}
			return "data"
		}
		taken := map[string]bool{}
		for _, fd := range stale {
			want := "data"
			if fd.Class == "sync" || fd.Class == "atomic" {
				want = fd.Class
			}
			var match *types.Var
			n := 0
			for i := 0; i < st.NumFields(); i++ {
				f := st.Field(i)
				if _, declared := e.cs.Fields[sname+"."+f.Name()]; declared || taken[f.Name()] {
					continue
				}
				if kindOf(types.TypeString(f.Type(), nil)) == want {
					match = f
					n++
				}
			}
			if n == 1 {
				taken[match.Name()] = true
				cp := *fd
				cp.Key = sname + "." + match.Name()
				e.cs.Fields[cp.Key] = &cp
				e.inferred[cp.Key] = "renamed from " + fd.Key
				e.noteFieldRename(fd.Key, match.Name())
			}
		}
		for i := 0; i < st.NumFields(); i++ {
			f := st.Field(i)
			key := sname + "." + f.Name()
			if _, declared := e.cs.Fields[key]; declared {
				continue
			}
			ts := types.TypeString(f.Type(), nil)
			fd := &FieldDecl{Key: key}
			switch {
			case strings.HasPrefix(ts, "sync/atomic."):
				fd.Class = "atomic"
			case strings.HasPrefix(ts, "sync."):
				fd.Class = "sync"
			case e.onlyConstructorStores(obj.Type(), i):
				fd.Class = "immutable"
			case hasMu:
				fd.Class = "guarded_by"
				fd.Lock = "mu"
			default:
				continue
			}
			e.cs.Fields[key] = fd
			e.inferred[key] = fd.Class
		}
	}
}

// onlyConstructorStores: every store to field i of struct type t in the package goes through a fresh allocation of
// t made in the same function, and the field's address is used for nothing but loads and such stores.
func (e *Engine) onlyConstructorStores(t types.Type, i int) bool {
	for fn := range ssautil.AllFunctions(e.pkg.Prog) {
		if fn.Pkg != e.pkg {
			continue
		}
		for _, b := range fn.Blocks {
			for _, in := range b.Instrs {
				fa, ok := in.(*ssa.FieldAddr)
				if !ok || fa.Field != i {
					continue
				}
				pt, ok := fa.X.Type().Underlying().(*types.Pointer)
				if !ok || !types.Identical(pt.Elem(), t) {
					continue
				}
				_, fresh := fa.X.(*ssa.Alloc)
				for _, r := range *fa.Referrers() {
					switch x := r.(type) {
					case *ssa.UnOp:
						// load; the value of a slice or map field must stay read-only as well: handing it out
						// (return, call argument, append, store elsewhere) or writing an element through it shares
						// its backing store with whoever gets it
						if !fresh && sharesBackingStore(x) {
							return false
						}
					case *ssa.Store:
						if x.Addr != ssa.Value(fa) || !fresh {
							return false
						}
					case *ssa.FieldAddr:
						// a member of a struct-typed field: loads only, or constructor stores
						for _, r2 := range *x.Referrers() {
							switch y := r2.(type) {
							case *ssa.UnOp, *ssa.DebugRef:
							case *ssa.Store:
								if y.Addr != ssa.Value(x) || !fresh {
									return false
								}
							default:
								return false
							}
						}
					case *ssa.DebugRef:
					default:
						return false
					}
				}
			}
		}
	}
	return true
}

// sharesBackingStore: the loaded value v is a slice or a map and is used for something other than reading it in
// place (len, cap, range, element loads, lookups, nil comparison).
func sharesBackingStore(v *ssa.UnOp) bool {
	switch v.Type().Underlying().(type) {
	case *types.Slice, *types.Map:
	default:
		return false
	}
	if v.Referrers() == nil {
		return false
	}
	for _, r := range *v.Referrers() {
		switch x := r.(type) {
		case *ssa.DebugRef, *ssa.Range, *ssa.Lookup, *ssa.BinOp:
		case *ssa.Call:
			if b, ok := x.Call.Value.(*ssa.Builtin); ok && (b.Name() == "len" || b.Name() == "cap") {
				continue
			}
			return true
		case *ssa.IndexAddr:
			if x.Referrers() != nil {
				for _, r2 := range *x.Referrers() {
					if st, ok := r2.(*ssa.Store); ok && st.Addr == ssa.Value(x) {
						return true
					}
					if _, ok := r2.(*ssa.UnOp); !ok {
						if _, ok := r2.(*ssa.DebugRef); !ok {
							if _, isStore := r2.(*ssa.Store); !isStore {
								return true
							}
						}
					}
				}
			}
		default:
			return true
		}
	}
	return false
}

// findConstTables recognises `var table = []T{c0, c1, ...}` at package level: the init function stores constants
// into a fresh array, slices it and stores the slice into the global; no other instruction of the package writes the
// global or takes its address. Such a table is read as the constant slice it is (loops over it are unrolled).
func (e *Engine) findConstTables() {
	e.constTables = map[string][]ssa.Value{}
	initFn := e.pkg.Func("init")
	if initFn == nil {
		return
	}
	elems := map[*ssa.Alloc]map[int64]ssa.Value{}
	size := map[*ssa.Alloc]int64{}
	cand := map[*ssa.Global]*ssa.Alloc{}
	bad := map[*ssa.Global]bool{}
	for _, b := range initFn.Blocks {
		for _, in := range b.Instrs {
			st, ok := in.(*ssa.Store)
			if !ok {
				continue
			}
			if ia, ok := st.Addr.(*ssa.IndexAddr); ok {
				if al, ok := ia.X.(*ssa.Alloc); ok {
					if ix, ok := ia.Index.(*ssa.Const); ok && ix.Value != nil {
						// a constant, or the value of a package-level variable of interface or pointer type (an error
						// sentinel: such variables are never reassigned, obligation sentinel.constant)
						var ev ssa.Value
						if c, ok := st.Val.(*ssa.Const); ok {
							ev = c
						} else if ld, ok := st.Val.(*ssa.UnOp); ok && ld.Op == token.MUL {
							if g, ok := ld.X.(*ssa.Global); ok && g.Pkg == e.pkg && (isInterface(ld.Type()) || isPointer(ld.Type())) {
								ev = ld
							}
						}
						if ev != nil {
							if elems[al] == nil {
								elems[al] = map[int64]ssa.Value{}
							}
							elems[al][ix.Int64()] = ev
							continue
						}
					}
					elems[al] = nil
					size[al] = -1
				}
				continue
			}
			if g, ok := st.Addr.(*ssa.Global); ok && g.Pkg == e.pkg {
				if sl, ok := st.Val.(*ssa.Slice); ok && sl.Low == nil && sl.High == nil {
					if al, ok := sl.X.(*ssa.Alloc); ok {
						if at, ok := al.Type().(*types.Pointer).Elem().Underlying().(*types.Array); ok && cand[g] == nil {
							cand[g] = al
							size[al] = at.Len()
							continue
						}
					}
				}
				bad[g] = true
			}
		}
	}
	// any other use of the global than a plain load disqualifies it
	for _, fn := range e.funcs {
		for _, b := range fn.Blocks {
			for _, in := range b.Instrs {
				for _, op := range in.Operands(nil) {
					g, ok := (*op).(*ssa.Global)
					if !ok || cand[g] == nil {
						continue
					}
					if u, isLoad := in.(*ssa.UnOp); isLoad && u.X == g {
						continue
					}
					if st, isStore := in.(*ssa.Store); isStore && st.Addr == g && fn == initFn {
						continue
					}
					bad[g] = true
				}
			}
		}
	}
	for g, al := range cand {
		if bad[g] || size[al] < 0 || int64(len(elems[al])) != size[al] {
			continue
		}
		var cs []ssa.Value
		for i := int64(0); i < size[al]; i++ {
			cs = append(cs, elems[al][i])
		}
		e.constTables[g.Name()] = cs
	}
	if os.Getenv("GOVC_DEBUG") != "" {
		fmt.Fprintf(os.Stderr, "const tables: %d candidates, bad=%v, found=%d\n", len(cand), len(bad), len(e.constTables))
	}
}

func staticallyCalls(e *Engine, fn *ssa.Function, bare string) bool {
	seen := map[*ssa.Function]bool{}
	var visit func(f *ssa.Function, depth int) bool
	visit = func(f *ssa.Function, depth int) bool {
		if seen[f] || depth > 3 {
			return false
		}
		seen[f] = true
		for _, b := range f.Blocks {
			for _, in := range b.Instrs {
				ci, ok := in.(ssa.CallInstruction)
				if !ok {
					continue
				}
				sc := ci.Common().StaticCallee()
				if sc == nil || sc.Pkg != e.pkg {
					continue
				}
				if bareName(e.funcKey(sc)) == bare {
					return true
				}
				// thin wrappers (becomeFollower -> demote) and closures
				if _, has := e.cs.Funcs[e.funcKey(sc)]; !has || e.cs.Funcs[e.funcKey(sc)].Flags["inline"] {
					if visit(sc, depth+1) {
						return true
					}
				}
			}
		}
		for _, af := range f.AnonFuncs {
			if visit(af, depth+1) {
				return true
			}
		}
		return false
	}
	return visit(fn, 0)
}

func (e *Engine) noteFieldRename(oldKey, newName string) {
	if e.fieldRenames == nil {
		e.fieldRenames = map[string]string{}
	}
	if _, ok := e.fieldRenames[oldKey]; !ok {
		e.fieldRenames[oldKey] = newName
		e.renamedNotes = append(e.renamedNotes, fmt.Sprintf("contract expressions naming the field %s follow its new name %s", oldKey, newName))
	}
}
