package main

import (
	"fmt"
	"go/token"
	"go/types"
	"path/filepath"
	"sort"
	"strings"

	"golang.org/x/tools/go/ssa"
)

func (e *Engine) newUnit(fn *ssa.Function) *Unit {
	key := e.funcKey(fn)
	u := &Unit{eng: e, root: fn, rootKey: key, fc: e.cs.Funcs[key], oblByName: map[string]*Obligation{}, unmodelled: map[string]int{},
		siteCount: map[string]int{}, sends: map[int][]sendRec{}, ghostSort: map[string]Sort{}, sentinels: map[string]Term{}, globals: map[string]Val{},
		declared: map[string]bool{}, onceDone: map[string]bool{}, rootCaller: map[string]Term{}, objinvDone: map[string]bool{}, initArrays: map[string]Term{}, closedChans: map[string]bool{}, assumedUsed: map[string]int{}}
	if u.fc != nil {
		u.fc.Used = true
		for _, g := range u.fc.Ghosts {
			u.ghostSort[g.Name] = g.Sort
		}
	}
	if al := e.cs.Always; al != nil {
		for _, g := range al.Ghosts {
			u.ghostSort[g.Name] = g.Sort
		}
	}
	return u
}

// VerifyRoot generates every obligation of one function.
func (e *Engine) VerifyRoot(fn *ssa.Function) (u *Unit) {
	u = e.newUnit(fn)
	defer func() {
		if r := recover(); r != nil {
			u.note("engine panic: %v", r)
			u.failed = fmt.Sprint(r)
		}
	}()
	st := &State{pc: TTrue, heap: map[string]Term{}, cells: map[*Cell]map[string]Val{}, ghost: map[string]Term{}, defers: map[*Frame][]*DeferRec{}}
	u.entry = &State{pc: TTrue, heap: map[string]Term{}, cells: map[*Cell]map[string]Val{}, ghost: map[string]Term{}, defers: map[*Frame][]*DeferRec{}}
	fr := &Frame{fn: fn, key: u.rootKey, vals: map[ssa.Value]Val{}, unit: u, hooks: u.fc}
	params := map[string]Val{}
	for i, p := range fn.Params {
		v := u.freshVal(p.Type(), "p_"+p.Name(), TTrue)
		if s, ok := v.(*Scalar); ok {
			s.Origin = "param:" + p.Name()
			if i == 0 && fn.Signature.Recv() != nil && isPointer(p.Type()) {
				u.fact(fmt.Sprintf("(assert (> %s 0))", s.T.S))
			}
		}
		if s, ok := v.(*Scalar); ok && isPointer(p.Type()) {
			u.knownRefs = append(u.knownRefs, s.T)
		}
		fr.vals[p] = v
		params[p.Name()] = v
	}
	// A parameter that the contract's header does not name, of an unexported method, which every call site of the
	// package fills with the same field of the very receiver it calls the method on (`e.step(e.kv, e.key, x)`),
	// holds that field at entry: the helper was given explicitly what it used to read from its receiver.
	if u.fc != nil && len(fn.Params) > 1 && fn.Signature.Recv() != nil {
		if rs, ok := fr.vals[fn.Params[0]].(*Scalar); ok && isPointer(fn.Params[0].Type()) {
			for i, fname := range e.receiverFieldArgs(fn, u.fc.Params) {
				if fname == "" {
					continue
				}
				pt := fn.Params[0].Type().Underlying().(*types.Pointer).Elem()
				lt := typeAt(pt, []string{fname}, e)
				if lt == nil {
					continue
				}
				v := u.rawHeap(st, structRootName(pt), []string{fname}, rs.T, lt)
				fr.vals[fn.Params[i]] = v
				params[fn.Params[i].Name()] = v
				u.assumedUsed[fmt.Sprintf("parameter %s of %s holds the receiver's field %s at entry (every call site passes it)", fn.Params[i].Name(), u.rootKey, fname)]++
			}
		}
	}
	for _, fv := range fn.FreeVars {
		// closures verified on their own: captured cells with unknown content
		elem := fv.Type().(*types.Pointer).Elem()
		c := u.newCell(elem, fv.Name())
		u.storeCell(st, c, nil, elem, u.freshVal(elem, "fv_"+fv.Name(), TTrue))
		fr.vals[fv] = &PtrV{Cell: c, Elem: elem}
	}
	if al := e.cs.Always; al != nil {
		env := u.newEnv(fr, st, st)
		for _, g := range al.Ghosts {
			st.ghost["g:"+g.Name] = u.evalTerm(env, g.Init)
		}
	}
	// object invariants of the parameters
	for _, p := range fn.Params {
		if s, ok := fr.vals[p].(*Scalar); ok && isPointer(p.Type()) {
			u.assumeObjInv(fr, st, s)
		}
	}
	if u.fc != nil {
		env := u.newEnv(fr, st, st)
		env.rootAssume = true
		for _, g := range u.fc.Ghosts {
			st.ghost["g:"+g.Name] = u.evalTerm(env, g.Init)
		}
		for _, c := range u.fc.Requires {
			u.assume(TTrue, u.evalBool(env, c.Expr))
		}
		if len(u.fc.Requires) > 0 {
			u.covers = append(u.covers, coverPoint{"requires@" + u.rootKey, TTrue, len(u.lines)})
		}
	}
	// entry snapshot for old()
	for k, v := range st.heap {
		u.entry.heap[k] = v
	}
	for k, v := range st.ghost {
		u.entry.ghost[k] = v
	}
	u.entryParams = params
	u.event(fr, st, "entry", params, e.pos(fn.Pos()))
	u.stack = []*ssa.Function{fn}
	exit, ret := u.execFunction(fr, st)
	if exit != nil {
		m := map[string]Val{}
		for k, v := range params {
			m[k] = v
		}
		bindResult(m, ret)
		u.curFn = []string{u.rootKey}
		u.event(fr, exit, "return", m, e.pos(fn.Pos()))
		if u.fc != nil {
			env := u.newEnv(fr, exit, u.entry)
			for k, v := range m {
				env.vars[k] = v
			}
			env.callee = true
			for _, c := range u.fc.Ensures {
				u.oblige(c.FullLabel(), propList(c.Prop), "", exit.pc, u.evalBool(env, c.Expr), e.pos(fn.Pos()), c.Src)
			}
		}
		u.checkObjInvs(fr, exit, e.pos(fn.Pos()))
		for k, v := range exit.ghost {
			if strings.HasPrefix(k, "nheld:") {
				u.oblige("lock.balanced("+k[6:]+")", []string{"C09", "C11", "C13", "C03", "C06", "C04", "C08", "C12"}, "", exit.pc, Eq(v, TZero), e.pos(fn.Pos()), "function returns holding "+k[6:])
			}
		}
		u.curFn = nil
	}
	return u
}

// ---------------------------------------------------------------- package-wide structural obligations

type StructuralResult struct {
	Obls []*Obligation
}

func (e *Engine) inScope(fn *ssa.Function) bool {
	root := fn
	for root.Parent() != nil {
		root = root.Parent()
	}
	if root.Pkg != e.pkg {
		return false
	}
	file := filepath.Base(e.fset.Position(root.Pos()).Filename)
	return !strings.HasSuffix(file, "_test.go") && !e.excluded[file] && root.Name() != "init"
}

func (e *Engine) Structural() []*Obligation {
	var out []*Obligation
	add := func(name string, props []string, holds bool, where, detail string) {
		out = append(out, &Obligation{Name: name, Props: props, Kind: "structural", Holds: holds, Detail: detail, Where: []string{where}, Family: name[:strings.IndexAny(name+"@", "@")], FnKey: "package"})
	}
	// 1. recursion: SCCs of the static call graph need a measure
	var fns []*ssa.Function
	for _, k := range sortedKeys(e.funcs) {
		if e.inScope(e.funcs[k]) {
			fns = append(fns, e.funcs[k])
		}
	}
	callees := map[*ssa.Function][]*ssa.Function{}
	for _, f := range fns {
		for _, b := range f.Blocks {
			for _, in := range b.Instrs {
				var cc *ssa.CallCommon
				switch x := in.(type) {
				case *ssa.Call:
					cc = &x.Call
				case *ssa.Defer:
					cc = &x.Call
				case *ssa.Go:
					cc = &x.Call
				case *ssa.MakeClosure:
					// a closure is a callee only if it is called or deferred here (not when it is spawned)
					onlyGo := true
					for _, r := range *x.Referrers() {
						if _, isGo := r.(*ssa.Go); !isGo {
							onlyGo = false
						}
					}
					if !onlyGo {
						callees[f] = append(callees[f], x.Fn.(*ssa.Function))
					}
				}
				if cc != nil && !cc.IsInvoke() {
					if sc := cc.StaticCallee(); sc != nil && e.inScope(sc) {
						if _, isGo := in.(*ssa.Go); !isGo {
							callees[f] = append(callees[f], sc)
						}
					}
				}
			}
		}
	}
	index := map[*ssa.Function]int{}
	low := map[*ssa.Function]int{}
	onStack := map[*ssa.Function]bool{}
	var stack []*ssa.Function
	n := 0
	var sccs [][]*ssa.Function
	var strong func(f *ssa.Function)
	strong = func(f *ssa.Function) {
		n++
		index[f], low[f] = n, n
		stack = append(stack, f)
		onStack[f] = true
		for _, g := range callees[f] {
			if index[g] == 0 {
				strong(g)
				if low[g] < low[f] {
					low[f] = low[g]
				}
			} else if onStack[g] && index[g] < low[f] {
				low[f] = index[g]
			}
		}
		if low[f] == index[f] {
			var comp []*ssa.Function
			for {
				g := stack[len(stack)-1]
				stack = stack[:len(stack)-1]
				onStack[g] = false
				comp = append(comp, g)
				if g == f {
					break
				}
			}
			sccs = append(sccs, comp)
		}
	}
	for _, f := range fns {
		if index[f] == 0 {
			strong(f)
		}
	}
	recursive := 0
	for _, comp := range sccs {
		self := false
		if len(comp) == 1 {
			for _, g := range callees[comp[0]] {
				if g == comp[0] {
					self = true
				}
			}
		}
		if len(comp) > 1 || self {
			recursive++
			var names []string
			for _, f := range comp {
				names = append(names, bareName(e.funcKey(f)))
			}
			sort.Strings(names)
			add("termination.recursion@{"+strings.Join(names, ",")+"}", e.termProps(comp...), false, e.pos(comp[0].Pos()),
				"functions call each other recursively and no decreasing measure is declared")
		}
	}
	add("termination.no_recursion@package", []string{"C13", "C15", "C17"}, recursive == 0, "leader/", fmt.Sprintf("%d recursive call-graph component(s)", recursive))

	// 2. every loop blocks or has a variant
	for _, f := range fns {
		u := e.newUnit(f)
		loops, _ := u.analyse(f)
		var heads []*ssa.BasicBlock
		for h := range loops {
			heads = append(heads, h)
		}
		sort.Slice(heads, func(i, j int) bool { return heads[i].Index < heads[j].Index })
		for _, h := range heads {
			li := loops[h]
			fr := &Frame{fn: f}
			if u.canUnroll(fr, li) {
				add(fmt.Sprintf("termination.loop@%s#%d", e.funcKey(f), li.ordinal), e.termProps(f), true, e.pos(firstPos(h)), "constant trip count (unrolled)")
				continue
			}
			spec := (*LoopSpec)(nil)
			if fc := e.cs.Funcs[e.funcKey(f)]; fc != nil {
				spec = fc.Loops[li.ordinal]
			}
			free := nonBlockingCycle(li)
			switch {
			case countedLoop(li):
				add(fmt.Sprintf("termination.loop@%s#%d", e.funcKey(f), li.ordinal), e.termProps(f), true, e.pos(firstPos(h)), "counted loop: an index stepped by a positive constant towards a bound the loop does not change")
			case !free:
				add(fmt.Sprintf("termination.loop@%s#%d", e.funcKey(f), li.ordinal), e.termProps(f), true, e.pos(firstPos(h)), "every cycle blocks on a channel operation or sleep")
			case spec != nil && spec.Decreases != nil:
				// the SMT obligation termination.decreases carries the proof
				add(fmt.Sprintf("termination.loop@%s#%d", e.funcKey(f), li.ordinal), e.termProps(f), true, e.pos(firstPos(h)), "variant declared (proved separately)")
			default:
				add(fmt.Sprintf("termination.loop@%s#%d", e.funcKey(f), li.ordinal), e.termProps(f), false, e.pos(firstPos(h)), "loop has a cycle without a blocking operation and no variant")
			}
		}
	}

	// 3. every field of the shared structs is declared
	for _, sname := range sharedStructs {
		obj := e.tpkg.Scope().Lookup(sname)
		if obj == nil {
			continue
		}
		st, ok := obj.Type().Underlying().(*types.Struct)
		if !ok {
			continue
		}
		for i := 0; i < st.NumFields(); i++ {
			key := sname + "." + st.Field(i).Name()
			_, declared := e.cs.Fields[key]
			add("field.declared("+key+")@package", []string{"C20"}, declared, e.pos(st.Field(i).Pos()), "shared field without a class declaration")
			if fd := e.cs.Fields[key]; fd != nil && fd.Class == "owned_by" {
				// the owners are functions, not activations: two loops of consecutive terms can overlap, so a field
				// that is only protected by "these functions alone touch it" has to be an atomic
				ts := types.TypeString(st.Field(i).Type(), nil)
				add("atomic.owned_field("+key+")@package", propsOfField(fd, "C20"), strings.HasPrefix(ts, "sync/atomic."), e.pos(st.Field(i).Pos()), "a field owned by functions (not by a lock) must be of a sync/atomic type: activations of its owners can overlap")
			}
			if fd := e.cs.Fields[key]; fd != nil && fd.Class != "guarded_by" {
				if bad := unsafeLibraryType(st.Field(i).Type(), 0); bad != "" {
					add("threadsafe.field("+key+")@package", []string{"C20"}, false, e.pos(st.Field(i).Pos()), "shared field reaches a "+bad+", which is not safe for concurrent use, and is not guarded by a lock")
				}
			}
		}
	}

	// 4. error sentinels are never reassigned
	for _, f := range fns {
		for _, b := range f.Blocks {
			for _, in := range b.Instrs {
				if s, ok := in.(*ssa.Store); ok {
					if g, ok := s.Addr.(*ssa.Global); ok && g.Pkg == e.pkg {
						add("sentinel.constant("+g.Name()+")@"+e.funcKey(f), []string{"C15"}, false, e.pos(s.Pos()), "package-level variable reassigned")
					}
				}
			}
		}
	}
	add("sentinel.constant@package", []string{"C15"}, true, "leader/", "no store to a package-level variable outside init")

	// 5. captured variables are not written by goroutine closures or after capture
	for _, f := range fns {
		if f.Parent() == nil {
			continue
		}
		for _, b := range f.Blocks {
			for _, in := range b.Instrs {
				if s, ok := in.(*ssa.Store); ok {
					if fv, ok := s.Addr.(*ssa.FreeVar); ok {
						add("closure.captured_write("+fv.Name()+")@"+e.funcKey(f), []string{"C20"}, false, e.pos(s.Pos()), "closure writes a captured variable")
					}
				}
			}
		}
	}
	return out
}

// nonBlockingCycle reports whether the loop has a cycle through its head
// that contains no blocking operation.
// blockingInstr: the instruction waits (channel receive, select without default, sleep), or calls a function
// of the program every path of which waits before it returns (a helper such as waitOrDone(ctx, d)).
func blockingInstr(in ssa.Instruction, depth int) bool {
	switch x := in.(type) {
	case *ssa.Select:
		return x.Blocking
	case *ssa.UnOp:
		return x.Op.String() == "<-"
	case *ssa.Call:
		sc := x.Call.StaticCallee()
		if sc == nil {
			return false
		}
		if sc.String() == "time.Sleep" {
			return true
		}
		if depth < 3 && sc.Blocks != nil && alwaysBlocks(sc, depth+1) {
			return true
		}
	}
	return false
}

// alwaysBlocks: no path from the entry of fn to a return avoids every blocking instruction.
func alwaysBlocks(fn *ssa.Function, depth int) bool {
	if len(fn.Blocks) == 0 {
		return false
	}
	blocksIn := func(b *ssa.BasicBlock) bool {
		for _, in := range b.Instrs {
			if blockingInstr(in, depth) {
				return true
			}
		}
		return false
	}
	seen := map[*ssa.BasicBlock]bool{}
	var free func(b *ssa.BasicBlock) bool // a return is reachable from b without blocking
	free = func(b *ssa.BasicBlock) bool {
		if seen[b] {
			return false
		}
		seen[b] = true
		if blocksIn(b) {
			return false
		}
		if len(b.Succs) == 0 {
			_, isRet := b.Instrs[len(b.Instrs)-1].(*ssa.Return)
			return isRet
		}
		for _, s := range b.Succs {
			if free(s) {
				return true
			}
		}
		return false
	}
	return !free(fn.Blocks[0])
}

func nonBlockingCycle(li *loopInfo) bool {
	// a range over a slice, array, string or map visits finitely many elements
	if c := li.head.Comment; strings.HasPrefix(c, "rangeindex.loop") || strings.HasPrefix(c, "rangeiter.loop") {
		return false
	}
	blocks := func(b *ssa.BasicBlock) bool {
		for _, in := range b.Instrs {
			if blockingInstr(in, 0) {
				return true
			}
		}
		return false
	}
	if blocks(li.head) {
		return false
	}
	seen := map[*ssa.BasicBlock]bool{}
	var reach func(b *ssa.BasicBlock) bool
	reach = func(b *ssa.BasicBlock) bool {
		for _, s := range b.Succs {
			if s == li.head {
				return true
			}
			if !li.body[s] || seen[s] || blocks(s) {
				continue
			}
			seen[s] = true
			if reach(s) {
				return true
			}
		}
		return false
	}
	return reach(li.head)
}

// assumeObjInv: object invariants over immutable fields hold for every
// object that was not allocated by this activation.
func (u *Unit) assumeObjInv(fr *Frame, st *State, ref *Scalar) {
	pt, ok := ref.Typ.Underlying().(*types.Pointer)
	if !ok || isOwnAlloc(ref.T) {
		return
	}
	root := structRootName(pt.Elem())
	if u.objinvDone[root+"@"+ref.T.S] {
		return
	}
	u.objinvDone[root+"@"+ref.T.S] = true
	for _, oi := range u.eng.cs.ObjInvs {
		if oi.Lock != root {
			continue
		}
		env := u.newEnv(fr, st, st)
		env.this = ref
		env.callee = true
		u.assume(Not(Eq(ref.T, TZero)), u.evalBool(env, oi.Clause.Expr))
	}
}

// checkObjInvs: objects allocated by this activation satisfy their
// invariant when the function returns.
func (u *Unit) checkObjInvs(fr *Frame, st *State, where string) {
	for _, oi := range u.eng.cs.ObjInvs {
		for k := 1; k <= u.allocs; k++ {
			typ := u.allocTypes[k]
			if typ == nil || structRootName(typ) != oi.Lock {
				continue
			}
			env := u.newEnv(fr, st, u.entry)
			env.this = &Scalar{T: IntLit(int64(-k)), Typ: types.NewPointer(typ)}
			env.callee = true
			u.oblige("objinv("+oi.Lock+")."+oi.Clause.Label, propList(oi.Clause.Prop), "", And(st.pc, u.allocPC[k]), u.evalBool(env, oi.Clause.Expr), where, oi.Clause.Src)
		}
	}
}

// unsafeLibraryType: the first library type documented as not safe for concurrent use that a value of type t holds
// or points to ("" if none), looking through named structs, pointers, slices and arrays.
func unsafeLibraryType(t types.Type, depth int) string {
	if depth > 4 {
		return ""
	}
	switch types.TypeString(t, nil) {
	case "math/rand.Rand", "math/rand/v2.Rand", "math/rand/v2.PCG", "math/rand/v2.ChaCha8", "bytes.Buffer", "strings.Builder", "bufio.Reader", "bufio.Writer":
		return types.TypeString(t, nil)
	}
	switch x := t.Underlying().(type) {
	case *types.Pointer:
		return unsafeLibraryType(x.Elem(), depth+1)
	case *types.Slice:
		return unsafeLibraryType(x.Elem(), depth+1)
	case *types.Array:
		return unsafeLibraryType(x.Elem(), depth+1)
	case *types.Struct:
		if n, ok := t.(*types.Named); ok && n.Obj().Pkg() != nil && !strings.HasSuffix(n.Obj().Pkg().Path(), "/leader") {
			// a type of another package: its own documentation decides (only the listed ones are known to be unsafe)
			return ""
		}
		for i := 0; i < x.NumFields(); i++ {
			if b := unsafeLibraryType(x.Field(i).Type(), depth+1); b != "" {
				return b
			}
		}
	}
	return ""
}

// countedLoop: the loop is left when `i < bound` (or `i <= bound`) fails, i is a phi of the head whose only
// back-edge values are i + c with a positive constant c, and bound is a constant, or len/cap of a value defined
// outside the loop, or a value defined outside the loop.
func countedLoop(li *loopInfo) bool {
	for _, in := range li.head.Instrs {
		bo, ok := in.(*ssa.BinOp)
		if !ok || (bo.Op != token.LSS && bo.Op != token.LEQ) {
			continue
		}
		phi, ok := bo.X.(*ssa.Phi)
		if !ok {
			// `i+1 < bound`: the index plus a constant
			if ad, isAdd := bo.X.(*ssa.BinOp); isAdd && ad.Op == token.ADD {
				if _, isC := ad.Y.(*ssa.Const); isC {
					phi, ok = ad.X.(*ssa.Phi)
				}
			}
		}
		if !ok || phi.Block() != li.head {
			continue
		}
		// the comparison decides whether the loop goes on
		used := false
		if ifi, ok := li.head.Instrs[len(li.head.Instrs)-1].(*ssa.If); ok && ifi.Cond == ssa.Value(bo) {
			used = true
		}
		if !used {
			continue
		}
		// bound does not change in the loop
		switch y := bo.Y.(type) {
		case *ssa.Const:
		case *ssa.Call:
			b, ok := y.Call.Value.(*ssa.Builtin)
			if !ok || (b.Name() != "len" && b.Name() != "cap") {
				continue
			}
			if ai, ok := y.Call.Args[0].(ssa.Instruction); ok && li.body[ai.Block()] {
				continue
			}
		default:
			if yi, ok := bo.Y.(ssa.Instruction); ok && li.body[yi.Block()] {
				continue
			}
		}
		// every back edge brings i + positive constant
		okStep := true
		seen := false
		for k, p := range li.head.Preds {
			if !li.body[p] {
				continue
			}
			seen = true
			add, ok := phi.Edges[k].(*ssa.BinOp)
			if !ok || add.Op != token.ADD || add.X != ssa.Value(phi) {
				okStep = false
				break
			}
			c, ok := add.Y.(*ssa.Const)
			if !ok || c.Value == nil || c.Int64() <= 0 {
				okStep = false
				break
			}
		}
		if seen && okStep {
			return true
		}
	}
	return false
}

// termProps: the properties a termination obligation counts for: C13 always, and the properties that speak about
// boundedness or crashes (as for panics) where one of the functions involved serves them.
func (e *Engine) termProps(fns ...*ssa.Function) []string {
	props := []string{"C13"}
	seen := map[string]bool{"C13": true}
	for _, f := range fns {
		g := f
		for g.Parent() != nil {
			g = g.Parent()
		}
		fc := e.cs.Funcs[e.funcKey(g)]
		if fc == nil {
			continue
		}
		for _, t := range fc.Tags {
			switch t {
			case "C04", "C09", "C11", "C15", "C16", "C17":
				if !seen[t] {
					seen[t] = true
					props = append(props, t)
				}
			}
		}
	}
	return props
}

// receiverFieldArgs: for each parameter index of the unexported method fn, the name of the receiver field that every
// call site in the package passes there ("" if the header of the contract names the parameter, if the call sites
// differ, if there is none, or if fn is used other than by direct calls).
func (e *Engine) receiverFieldArgs(fn *ssa.Function, declared []string) []string {
	out := make([]string, len(fn.Params))
	if fn.Object() == nil || fn.Object().Exported() {
		return out
	}
	named := map[string]bool{}
	for _, d := range declared {
		named[d] = true
	}
	sites := 0
	cand := make([]string, len(fn.Params))
	bad := make([]bool, len(fn.Params))
	for _, g := range e.funcs {
		for _, b := range g.Blocks {
			for _, ins := range b.Instrs {
				// any use of fn as a value disables the inference
				for _, op := range ins.Operands(nil) {
					if op != nil && *op == ssa.Value(fn) {
						if ci, ok := ins.(ssa.CallInstruction); !ok || ci.Common().Value != ssa.Value(fn) {
							return make([]string, len(fn.Params))
						}
					}
				}
				ci, ok := ins.(ssa.CallInstruction)
				if !ok || ci.Common().StaticCallee() != fn || ci.Common().IsInvoke() {
					continue
				}
				if _, isGo := ins.(*ssa.Go); isGo {
					return make([]string, len(fn.Params))
				}
				if _, isDefer := ins.(*ssa.Defer); isDefer {
					return make([]string, len(fn.Params))
				}
				args := ci.Common().Args
				if len(args) != len(fn.Params) {
					return make([]string, len(fn.Params))
				}
				sites++
				for i := 1; i < len(args); i++ {
					f := ""
					a := args[i]
					if ch, ok := a.(*ssa.ChangeInterface); ok {
						a = ch.X
					}
					if ld, ok := a.(*ssa.UnOp); ok && ld.Op == token.MUL {
						if fa, ok := ld.X.(*ssa.FieldAddr); ok && fa.X == args[0] {
							f = fa.X.Type().Underlying().(*types.Pointer).Elem().Underlying().(*types.Struct).Field(fa.Field).Name()
						}
					}
					if f == "" || (cand[i] != "" && cand[i] != f) {
						bad[i] = true
					}
					cand[i] = f
				}
			}
		}
	}
	if sites == 0 {
		return out
	}
	for i := 1; i < len(fn.Params); i++ {
		if !bad[i] && cand[i] != "" && !named[fn.Params[i].Name()] {
			out[i] = cand[i]
		}
	}
	return out
}
