package main

import (
	"fmt"
	"strings"
	"unicode"
)

// Contract expression language: Go-like expressions plus ==>, <==>, c ? a : b.

type Expr struct {
	Op   string // "lit", "id", "sel", "call", "assert", "un", "bin", "cond"
	Name string // identifier, selector name, operator, type text for assert
	Args []*Expr
	Pos  string
}

func (e *Expr) String() string {
	switch e.Op {
	case "lit", "id", "type":
		return e.Name
	case "str":
		return fmt.Sprintf("%q", e.Name)
	case "sel":
		return e.Args[0].String() + "." + e.Name
	case "assert":
		return e.Args[0].String() + ".(" + e.Name + ")"
	case "call":
		var as []string
		for _, a := range e.Args[1:] {
			as = append(as, a.String())
		}
		return e.Args[0].String() + "(" + strings.Join(as, ", ") + ")"
	case "un":
		return e.Name + e.Args[0].String()
	case "bin":
		return "(" + e.Args[0].String() + " " + e.Name + " " + e.Args[1].String() + ")"
	case "index":
		return e.Args[0].String() + "[" + e.Args[1].String() + "]"
	case "cond":
		return "(" + e.Args[0].String() + " ? " + e.Args[1].String() + " : " + e.Args[2].String() + ")"
	}
	return "?"
}

type tok struct {
	kind string // "id", "num", "str", "op", "eof"
	s    string
}

func lexExpr(src string) ([]tok, error) {
	var out []tok
	rs := []rune(src)
	i := 0
	for i < len(rs) {
		c := rs[i]
		switch {
		case unicode.IsSpace(c):
			i++
		case unicode.IsLetter(c) || c == '_' || c == '$':
			j := i
			for j < len(rs) && (unicode.IsLetter(rs[j]) || unicode.IsDigit(rs[j]) || rs[j] == '_' || rs[j] == '$') {
				j++
			}
			out = append(out, tok{"id", string(rs[i:j])})
			i = j
		case unicode.IsDigit(c):
			j := i
			for j < len(rs) && (unicode.IsDigit(rs[j]) || rs[j] == '_' || rs[j] == '.' && j+1 < len(rs) && unicode.IsDigit(rs[j+1])) {
				j++
			}
			out = append(out, tok{"num", strings.ReplaceAll(string(rs[i:j]), "_", "")})
			i = j
		case c == '"':
			j := i + 1
			var b strings.Builder
			for j < len(rs) && rs[j] != '"' {
				if rs[j] == '\\' && j+1 < len(rs) {
					j++
				}
				b.WriteRune(rs[j])
				j++
			}
			if j >= len(rs) {
				return nil, fmt.Errorf("unterminated string in %q", src)
			}
			out = append(out, tok{"str", b.String()})
			i = j + 1
		default:
			ops := []string{"<==>", "==>", "==", "!=", "<=", ">=", "&&", "||", "<", ">", "+", "-", "*", "/", "%", "!", "(", ")", ",", ".", "?", ":", "[", "]"}
			matched := false
			for _, op := range ops {
				if strings.HasPrefix(string(rs[i:]), op) {
					out = append(out, tok{"op", op})
					i += len([]rune(op))
					matched = true
					break
				}
			}
			if !matched {
				return nil, fmt.Errorf("unexpected character %q in %q", string(c), src)
			}
		}
	}
	out = append(out, tok{"eof", ""})
	return out, nil
}

type exprParser struct {
	toks []tok
	p    int
	src  string
}

func ParseExpr(src string) (*Expr, error) {
	toks, err := lexExpr(src)
	if err != nil {
		return nil, err
	}
	ps := &exprParser{toks: toks, src: src}
	e, err := ps.parse(0)
	if err != nil {
		return nil, err
	}
	if ps.peek().kind != "eof" {
		return nil, fmt.Errorf("trailing tokens at %q in %q", ps.peek().s, src)
	}
	return e, nil
}

func (ps *exprParser) peek() tok { return ps.toks[ps.p] }
func (ps *exprParser) next() tok { t := ps.toks[ps.p]; ps.p++; return t }
func (ps *exprParser) accept(s string) bool {
	if ps.peek().kind == "op" && ps.peek().s == s {
		ps.p++
		return true
	}
	return false
}

var binPrec = map[string]int{
	"<==>": 1, "==>": 2, "||": 4, "&&": 5,
	"==": 6, "!=": 6, "<": 6, "<=": 6, ">": 6, ">=": 6,
	"+": 7, "-": 7, "*": 8, "/": 8, "%": 8,
}

func (ps *exprParser) parse(minPrec int) (*Expr, error) {
	lhs, err := ps.parseUnary()
	if err != nil {
		return nil, err
	}
	for {
		t := ps.peek()
		if t.kind != "op" {
			break
		}
		if t.s == "?" && minPrec <= 3 {
			ps.next()
			a, err := ps.parse(4)
			if err != nil {
				return nil, err
			}
			if !ps.accept(":") {
				return nil, fmt.Errorf("expected ':' in %q", ps.src)
			}
			b, err := ps.parse(3)
			if err != nil {
				return nil, err
			}
			lhs = &Expr{Op: "cond", Args: []*Expr{lhs, a, b}}
			continue
		}
		prec, ok := binPrec[t.s]
		if !ok || prec < minPrec {
			break
		}
		ps.next()
		nextMin := prec + 1
		if t.s == "==>" { // right associative
			nextMin = prec
		}
		rhs, err := ps.parse(nextMin)
		if err != nil {
			return nil, err
		}
		lhs = &Expr{Op: "bin", Name: t.s, Args: []*Expr{lhs, rhs}}
	}
	return lhs, nil
}

func (ps *exprParser) parseUnary() (*Expr, error) {
	if ps.accept("!") {
		a, err := ps.parseUnary()
		if err != nil {
			return nil, err
		}
		return &Expr{Op: "un", Name: "!", Args: []*Expr{a}}, nil
	}
	if ps.accept("-") {
		a, err := ps.parseUnary()
		if err != nil {
			return nil, err
		}
		return &Expr{Op: "un", Name: "-", Args: []*Expr{a}}, nil
	}
	return ps.parsePostfix()
}

func (ps *exprParser) parseTypeText() (string, error) {
	// *T | T | pkg.T
	var b strings.Builder
	for ps.accept("*") {
		b.WriteString("*")
	}
	t := ps.next()
	if t.kind != "id" {
		return "", fmt.Errorf("expected type name in %q", ps.src)
	}
	b.WriteString(t.s)
	if ps.accept(".") {
		t2 := ps.next()
		b.WriteString("." + t2.s)
	}
	return b.String(), nil
}

func (ps *exprParser) parsePostfix() (*Expr, error) {
	var e *Expr
	t := ps.next()
	switch t.kind {
	case "num":
		e = &Expr{Op: "lit", Name: t.s}
	case "str":
		e = &Expr{Op: "str", Name: t.s}
	case "id":
		e = &Expr{Op: "id", Name: t.s}
	case "op":
		if t.s == "(" {
			inner, err := ps.parse(0)
			if err != nil {
				return nil, err
			}
			if !ps.accept(")") {
				return nil, fmt.Errorf("expected ')' in %q", ps.src)
			}
			e = inner
		} else if t.s == "*" {
			// type literal used as an argument: *T
			ps.p--
			tt, err := ps.parseTypeText()
			if err != nil {
				return nil, err
			}
			e = &Expr{Op: "type", Name: tt}
		} else {
			return nil, fmt.Errorf("unexpected %q in %q", t.s, ps.src)
		}
	default:
		return nil, fmt.Errorf("unexpected end of expression in %q", ps.src)
	}
	for {
		if ps.accept(".") {
			if ps.accept("(") {
				tt, err := ps.parseTypeText()
				if err != nil {
					return nil, err
				}
				if !ps.accept(")") {
					return nil, fmt.Errorf("expected ')' after type in %q", ps.src)
				}
				e = &Expr{Op: "assert", Name: tt, Args: []*Expr{e}}
				continue
			}
			n := ps.next()
			if n.kind != "id" {
				return nil, fmt.Errorf("expected selector name in %q", ps.src)
			}
			e = &Expr{Op: "sel", Name: n.s, Args: []*Expr{e}}
			continue
		}
		if ps.accept("[") {
			idx, err := ps.parse(0)
			if err != nil {
				return nil, err
			}
			if !ps.accept("]") {
				return nil, fmt.Errorf("expected ']' in %q", ps.src)
			}
			e = &Expr{Op: "index", Args: []*Expr{e, idx}}
			continue
		}
		if ps.accept("(") {
			args := []*Expr{e}
			if !ps.accept(")") {
				for {
					a, err := ps.parse(0)
					if err != nil {
						return nil, err
					}
					args = append(args, a)
					if ps.accept(")") {
						break
					}
					if !ps.accept(",") {
						return nil, fmt.Errorf("expected ',' or ')' in %q", ps.src)
					}
				}
			}
			e = &Expr{Op: "call", Args: args}
			continue
		}
		break
	}
	return e, nil
}
