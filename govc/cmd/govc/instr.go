package main

import (
	"fmt"
	"go/token"
	"go/types"
	"strings"

	"golang.org/x/tools/go/ssa"
)

func (u *Unit) execInstr(fr *Frame, st *State, in ssa.Instruction) {
	where := u.eng.pos(in.Pos())
	switch x := in.(type) {
	case *ssa.Alloc:
		elem := x.Type().(*types.Pointer).Elem()
		if sty, ok := u.eng.transparent(elem); ok && x.Heap && isNamed(elem) && u.isSharedStruct(elem) {
			// a heap object of a package struct type: fresh reference, zeroed fields
			u.allocs++
			if u.allocTypes == nil {
				u.allocTypes = map[int]types.Type{}
			}
			u.allocTypes[u.allocs] = elem
			if u.allocPC == nil {
				u.allocPC = map[int]Term{}
			}
			u.allocPC[u.allocs] = st.pc
			ref := IntLit(int64(-u.allocs))
			root := structRootName(elem)
			_ = sty
			u.leaves(elem, nil, func(path []string, lt types.Type) {
				key := pathKey(root, path)
				arr := u.heapArr(st, key, u.leafSort(lt))
				z, _ := valTerm(u.zeroVal(lt))
				switch u.leafSort(lt) {
				case SBool:
					z = TFalse
				case SReal:
					z = Term{"0.0", SReal}
				}
				st.heap[key] = u.define(StoreA(arr, ref, z), "Hz")
			})
			fr.vals[x] = &Scalar{T: ref, Typ: x.Type(), Allocs: &allocSet{ks: []int{u.allocs}}}
			return
		}
		c := u.newCell(elem, x.Comment)
		fr.vals[x] = &PtrV{Cell: c, Elem: elem}
		// zero-initialised: represented by absence

	case *ssa.FieldAddr:
		base := u.get(fr, x.X)
		pt := x.X.Type().Underlying().(*types.Pointer).Elem()
		sty := pt.Underlying().(*types.Struct)
		fname := sty.Field(x.Field).Name()
		ftyp := sty.Field(x.Field).Type()
		switch b := base.(type) {
		case *PtrV:
			fr.vals[x] = &PtrV{Cell: b.Cell, Base: b.Base, Root: b.Root, Path: append(append([]string{}, b.Path...), fname), Elem: ftyp, RTyp: b.RTyp}
		case *Scalar:
			if !isOwnAlloc(b.T) && b.T.S != "this" {
				u.oblige("nopanic.nil_deref", u.panicProps(), "", st.pc, Not(Eq(b.T, TZero)), where, "field access through a nil *"+structRootName(pt))
				u.assume(st.pc, Not(Eq(b.T, TZero)))
			}
			fr.vals[x] = &PtrV{Base: b.T, Root: structRootName(pt), Path: []string{fname}, Elem: ftyp, RTyp: pt}
		default:
			u.note("FieldAddr on %T in %s", base, fr.key)
			fr.vals[x] = &PtrV{Cell: u.newCell(ftyp, "?"), Elem: ftyp}
		}

	case *ssa.Field:
		base := u.get(fr, x.X)
		if sv, ok := base.(*StructV); ok && x.Field < len(sv.F) {
			fr.vals[x] = sv.F[x.Field]
		} else {
			fr.vals[x] = u.freshVal(x.Type(), "field", st.pc)
		}

	case *ssa.IndexAddr:
		base := u.get(fr, x.X)
		idx := u.get(fr, x.Index)
		it, _ := valTerm(idx)
		elem := x.Type().(*types.Pointer).Elem()
		switch b := base.(type) {
		case *PtrV:
			if b.Cell != nil && isNumLit(it.S) {
				fr.vals[x] = &PtrV{Cell: b.Cell, Path: append(append([]string{}, b.Path...), it.S), Elem: elem}
				return
			}
		case *SliceV:
			if b.Cell != nil && isNumLit(it.S) {
				fr.vals[x] = &PtrV{Cell: b.Cell, Path: []string{it.S}, Elem: elem}
				return
			}
		}
		if _, ln, ok := u.lenTerm(base, x.X.Type()); ok {
			u.oblige("nopanic.index", u.panicProps(), "", st.pc, And(Cmp("<=", TZero, it), Cmp("<", it, ln)), where, "index out of range")
		}
		// unknown element: a throw-away cell with a fresh value
		c := u.newCell(elem, "idx")
		u.storeCell(st, c, nil, elem, u.freshVal(elem, "elem", st.pc))
		fr.vals[x] = &PtrV{Cell: c, Elem: elem}

	case *ssa.Index:
		fr.vals[x] = u.freshVal(x.Type(), "index", st.pc)

	case *ssa.Lookup:
		m := u.get(fr, x.X)
		k := u.get(fr, x.Index)
		if isStringType(x.X.Type()) {
			if _, ln, ok := u.lenTerm(m, x.X.Type()); ok {
				kt := u.termOf(k)
				u.oblige("nopanic.index", u.panicProps(), "", st.pc, And(Cmp("<=", TZero, kt), Cmp("<", kt, ln)), where, "string index out of range")
			}
			fr.vals[x] = u.freshVal(x.Type(), "byte", st.pc)
			return
		}
		if mv, ok := m.(*MapV); ok {
			et := x.X.Type().Underlying().(*types.Map).Elem()
			v, has := u.mapLookup(st, mv, u.termOf(k))
			zero, _ := valTerm(u.zeroVal(et))
			val := &Scalar{T: u.define(Ite(has, v, zero), "mval"), Typ: et}
			if isPointer(et) {
				// the pointers a map holds are non-nil (listed under assumptions)
				u.assume(st.pc, Implies(has, Not(Eq(v, TZero))))
				u.assumedUsed["convention the pointer values stored in a map are non-nil"]++
			}
			if x.CommaOk {
				fr.vals[x] = &TupleV{Vs: []Val{val, &Scalar{T: has, Typ: types.Typ[types.Bool]}}}
			} else {
				fr.vals[x] = val
			}
			return
		}
		mt := u.termOf(m)
		kt := u.termOf(k)
		val := &Scalar{T: App(SInt, "mapget", mt, kt), Typ: x.X.Type().Underlying().(*types.Map).Elem()}
		if x.CommaOk {
			fr.vals[x] = &TupleV{Vs: []Val{val, &Scalar{T: App(SBool, "maphas", mt, kt), Typ: types.Typ[types.Bool]}}}
		} else {
			fr.vals[x] = val
		}

	case *ssa.Store:
		addr := u.get(fr, x.Addr)
		// a whole-array copy between locals (`*dst = *src`, the way a composite array literal reaches its variable)
		if ld, ok := x.Val.(*ssa.UnOp); ok && ld.Op == token.MUL {
			if _, isArr := ld.Type().Underlying().(*types.Array); isArr {
				src, ok1 := u.get(fr, ld.X).(*PtrV)
				dst, ok2 := addr.(*PtrV)
				if ok1 && ok2 && src.Cell != nil && dst.Cell != nil {
					sp, dp := strings.Join(src.Path, "."), strings.Join(dst.Path, ".")
					nm := map[string]Val{}
					for k, v := range st.cells[dst.Cell] {
						if !(k == dp || strings.HasPrefix(k, dp+".") || dp == "") {
							nm[k] = v
						}
					}
					for k, v := range st.cells[src.Cell] {
						if k == sp || strings.HasPrefix(k, sp+".") || sp == "" {
							rest := strings.TrimPrefix(strings.TrimPrefix(k, sp), ".")
							nk := rest
							if dp != "" && rest != "" {
								nk = dp + "." + rest
							} else if dp != "" {
								nk = dp
							}
							nm[nk] = v
						}
					}
					st.cells[dst.Cell] = nm
					return
				}
			}
		}
		v := u.get(fr, x.Val)
		if p, ok := addr.(*PtrV); ok {
			u.storePtr(fr, st, p, v, where)
		} else if p := u.structRef(addr, x.Addr.Type()); p != nil {
			// whole-struct store through a reference to a package struct (a spilled by-value parameter, *p = T{...})
			u.storeHeap(fr, st, p, v, where)
		} else {
			u.note("store through %T in %s", addr, fr.key)
		}

	case *ssa.UnOp:
		u.execUnOp(fr, st, x, where)

	case *ssa.BinOp:
		fr.vals[x] = u.binop(fr, st, x.Op, u.get(fr, x.X), u.get(fr, x.Y), x.Type(), x.X.Type(), where)

	case *ssa.Convert:
		fr.vals[x] = u.convert(st, u.get(fr, x.X), x.X.Type(), x.Type(), where)

	case *ssa.ChangeType:
		v := u.get(fr, x.X)
		if s, ok := v.(*Scalar); ok {
			fr.vals[x] = &Scalar{T: s.T, Typ: x.Type(), Origin: s.Origin, Aux: s.Aux}
		} else {
			fr.vals[x] = v
		}

	case *ssa.ChangeInterface:
		fr.vals[x] = u.get(fr, x.X)

	case *ssa.MakeInterface:
		fr.vals[x] = u.makeIface(st, u.get(fr, x.X), x.X.Type(), x.Type())

	case *ssa.TypeAssert:
		u.typeAssert(fr, st, x, where)

	case *ssa.Extract:
		t := u.get(fr, x.Tuple)
		if tv, ok := t.(*TupleV); ok && x.Index < len(tv.Vs) {
			fr.vals[x] = tv.Vs[x.Index]
		} else {
			fr.vals[x] = u.freshVal(x.Type(), "extract", st.pc)
		}

	case *ssa.Slice:
		base := u.get(fr, x.X)
		if p, ok := base.(*PtrV); ok && p.Cell != nil {
			if at, ok := p.Elem.Underlying().(*types.Array); ok {
				sv := &SliceV{Cell: p.Cell, N: int(at.Len()), T: IntLit(int64(-200000 - p.Cell.ID)), Typ: x.Type()}
				// the backing array of a slice literal or of a variadic argument list is complete when it is sliced
				// and never written afterwards: its elements are known from here on, whatever state the value is
				// looked at in (e.g. after the join of two returns of a helper)
				if al, ok := x.X.(*ssa.Alloc); ok && (al.Comment == "slicelit" || al.Comment == "varargs") && sv.N <= 8 && x.Low == nil && x.High == nil {
					if es, gs, ok := u.knownElems(st, sv); ok {
						sv.Elems, sv.Guards, sv.Known = es, gs, true
					}
				}
				fr.vals[x] = sv
				return
			}
		}
		if bt, ln, ok := u.lenTerm(base, x.X.Type()); ok && (x.Low != nil || x.High != nil) {
			// s[lo:hi] on a string or a slice: 0 <= lo <= hi <= len (cap for slices)
			lo, hi := TZero, ln
			if x.Low != nil {
				lo = u.termOf(u.get(fr, x.Low))
			}
			if x.High != nil {
				hi = u.termOf(u.get(fr, x.High))
			}
			limit := ln
			if !isStringType(x.X.Type()) {
				limit = App(SInt, "CapOf", bt)
				u.assume(st.pc, Cmp(">=", limit, ln))
			}
			u.oblige("nopanic.slice_bounds", u.panicProps(), "", st.pc, And(Cmp("<=", TZero, lo), Cmp("<=", lo, hi), Cmp("<=", hi, limit)), where, "slice bounds out of range")
			r := u.fresh(SInt, "sliced")
			u.assume(st.pc, Eq(App(SInt, "LenOf", r), Arith("-", hi, lo)))
			if isStringType(x.X.Type()) {
				fr.vals[x] = &Scalar{T: r, Typ: x.Type()}
			} else {
				fr.vals[x] = &SliceV{T: r, Typ: x.Type()}
			}
			return
		}
		if isStringType(x.X.Type()) {
			fr.vals[x] = u.freshVal(x.Type(), "substr", st.pc)
			return
		}
		fr.vals[x] = &SliceV{T: u.fresh(SInt, "slice"), Typ: x.Type()}

	case *ssa.MakeClosure:
		c := &ClosureV{Fn: x.Fn.(*ssa.Function)}
		for _, b := range x.Bindings {
			c.Binds = append(c.Binds, u.get(fr, b))
		}
		fr.vals[x] = c

	case *ssa.MakeChan:
		c := u.newCell(x.Type(), "chan")
		if u.chanCap == nil {
			u.chanCap = map[int]Term{}
		}
		u.chanCap[c.ID] = u.termOf(u.get(fr, x.Size))
		fr.vals[x] = &Scalar{T: IntLit(int64(-300000 - c.ID)), Typ: x.Type(), Origin: fmt.Sprintf("chan:%d", c.ID)}
		u.event(fr, st, "makechan", map[string]Val{"ch": fr.vals[x]}, where)

	case *ssa.MakeMap:
		fr.vals[x] = &Scalar{T: u.fresh(SInt, "map"), Typ: x.Type(), Origin: "map", Keys: &keySet{known: true, ks: map[string]bool{}}}

	case *ssa.MapUpdate:
		// a local map keeps the set of constant keys it may hold (label sets of metrics)
		if ms, ok := u.get(fr, x.Map).(*Scalar); ok && ms.Keys != nil {
			if ks, ok := u.get(fr, x.Key).(*Scalar); ok {
				if lit, ok := u.eng.strOf(ks.T); ok && isStringType(x.Key.Type()) {
					ms.Keys.ks[lit] = true
				} else {
					ms.Keys.known = false
				}
			} else {
				ms.Keys.known = false
			}
		}
		// maps held in fields are modelled; local label maps are not
		if mv, ok := u.get(fr, x.Map).(*MapV); ok {
			u.oblige("nopanic.nil_map_write", u.panicProps(), "", st.pc, Not(u.mapNil(st, mv)), where, "assignment to entry in nil map")
			u.mapStore(st, mv, u.termOf(u.get(fr, x.Key)), u.termOf(u.get(fr, x.Value)), TTrue)
		}

	case *ssa.MakeSlice:
		fr.vals[x] = &SliceV{T: u.fresh(SInt, "slice"), Typ: x.Type()}

	case *ssa.Send:
		ch := u.get(fr, x.Chan)
		v := u.get(fr, x.X)
		if s, ok := ch.(*Scalar); ok && strings.HasPrefix(s.Origin, "chan:") {
			var id int
			fmt.Sscanf(s.Origin, "chan:%d", &id)
			u.sends[id] = append(u.sends[id], sendRec{st.pc, v})
		}
		// capacity of the channel when it is a local one, and how many sends this activation made on it before
		capT, nth := u.fresh(SInt, "chancap"), TZero
		if s, ok := ch.(*Scalar); ok && strings.HasPrefix(s.Origin, "chan:") {
			var id int
			fmt.Sscanf(s.Origin, "chan:%d", &id)
			if t, ok := u.chanCap[id]; ok {
				capT = t
			}
			nth = IntLit(int64(len(u.sends[id]) - 1))
		}
		u.event(fr, st, "send", map[string]Val{"value": v, "blocking": &Scalar{T: TTrue, Typ: types.Typ[types.Bool]},
			"cap": &Scalar{T: capT, Typ: types.Typ[types.Int]}, "earlier": &Scalar{T: nth, Typ: types.Typ[types.Int]},
			"guard": &Scalar{T: u.eng.strID(""), Typ: types.Typ[types.String]}}, where)

	case *ssa.Select:
		u.execSelect(fr, st, x, where)

	case *ssa.Call:
		fr.vals[x] = u.execCall(fr, st, &x.Call, x, "call", where)

	case *ssa.Go:
		u.execGo(fr, st, x, where)

	case *ssa.Defer:
		d := &DeferRec{Guard: TTrue, Call: &x.Call, Instr: x}
		if !x.Call.IsInvoke() {
			d.Fn = u.get(fr, x.Call.Value)
		} else {
			d.Fn = u.get(fr, x.Call.Value)
		}
		for _, a := range x.Call.Args {
			d.Args = append(d.Args, u.get(fr, a))
		}
		st.defers[fr] = append(append([]*DeferRec{}, st.defers[fr]...), d)

	case *ssa.RunDefers:
		ds := st.defers[fr]
		st.defers[fr] = nil
		for i := len(ds) - 1; i >= 0; i-- {
			d := ds[i]
			if d.Guard.IsFalse() {
				continue
			}
			if d.Guard.IsTrue() {
				u.execCallVals(fr, st, d.Call, d.Fn, d.Args, d.Instr, "defer", u.eng.pos(d.Instr.Pos()))
				continue
			}
			// conditional defer: run on a copy and merge
			t := st.clone()
			t.pc = u.define(And(st.pc, d.Guard), "pc")
			u.execCallVals(fr, t, d.Call, d.Fn, d.Args, d.Instr, "defer", u.eng.pos(d.Instr.Pos()))
			f := st.clone()
			f.pc = u.define(And(st.pc, Not(d.Guard)), "pc")
			m := u.mergeStates([]edgeState{{nil, t}, {nil, f}})
			*st = *m
		}

	case *ssa.DebugRef:
	default:
		u.note("unsupported instruction %T in %s", in, fr.key)
		if v, ok := in.(ssa.Value); ok {
			fr.vals[v] = u.freshVal(v.Type(), "unsup", st.pc)
		}
	}
}

func isNamed(t types.Type) bool {
	_, ok := types.Unalias(t).(*types.Named)
	return ok
}

func (u *Unit) isSharedStruct(t types.Type) bool {
	n := structRootName(t)
	if _, ok := u.eng.cs.Fields[n+".$heap"]; ok {
		return true
	}
	for _, s := range sharedStructs {
		if s == n {
			return true
		}
	}
	// every named package struct that is allocated with new/&T{} and escapes
	return true
}

// lenTerm: the identity and the length of a string or slice value, when the engine tracks one.
func (u *Unit) lenTerm(v Val, t types.Type) (Term, Term, bool) {
	switch b := v.(type) {
	case *SliceV:
		if b.Cell != nil {
			return b.T, IntLit(int64(b.N)), true
		}
		l := App(SInt, "LenOf", b.T)
		u.assume(TTrue, Cmp(">=", l, TZero))
		return b.T, l, true
	case *Scalar:
		switch t.Underlying().(type) {
		case *types.Basic, *types.Slice:
			if b.T.Sort != SInt {
				return Term{}, Term{}, false
			}
			l := App(SInt, "LenOf", b.T)
			u.assume(TTrue, Cmp(">=", l, TZero))
			return b.T, l, true
		}
	}
	return Term{}, Term{}, false
}

func isStringType(t types.Type) bool {
	b, ok := t.Underlying().(*types.Basic)
	return ok && b.Info()&types.IsString != 0
}

// panicProps: run-time panics count for C13 (no crash on any record content) and, in functions that serve them,
// for C09 (stop never panics) and C11 (no sequence of notifications crashes the election).
func (u *Unit) panicProps() []string {
	props := []string{"C13"}
	fc := u.eng.cs.Funcs[u.curKey()]
	if fc == nil {
		fc = u.fc
	}
	if fc != nil {
		if fc.Flags["untagged_panics"] {
			return nil
		}
		// the properties that speak about crashes: C13 always; C09 and C11 (no crash), C04 (every other situation returns
		// false), C16 (creation succeeds or fails with an error), C15 and C17 (total functions) where the function serves them
		for _, t := range fc.Tags {
			if t == "C09" || t == "C11" || t == "C04" || t == "C16" || t == "C15" || t == "C17" {
				props = append(props, t)
			}
		}
	}
	return props
}

// structRef: a reference (Scalar) to a package struct as a heap pointer to the whole object, or nil.
func (u *Unit) structRef(v Val, pt types.Type) *PtrV {
	s, ok := v.(*Scalar)
	if !ok {
		return nil
	}
	ptr, ok := pt.Underlying().(*types.Pointer)
	if !ok {
		return nil
	}
	elem := ptr.Elem()
	if _, tr := u.eng.transparent(elem); !tr || !isNamed(elem) {
		return nil
	}
	return &PtrV{Base: s.T, Root: structRootName(elem), Elem: elem, RTyp: elem}
}

func (u *Unit) execUnOp(fr *Frame, st *State, x *ssa.UnOp, where string) {
	v := u.get(fr, x.X)
	switch x.Op {
	case token.MUL:
		switch p := v.(type) {
		case *PtrV:
			if p.Cell != nil && strings.HasPrefix(p.Cell.Name, "G:") {
				if cs, ok := u.eng.constTables[p.Cell.Name[2:]]; ok && len(p.Path) == 0 {
					fr.vals[x] = u.constTable(st, p.Cell.Name[2:], cs, x.Type())
					return
				}
				fr.vals[x] = u.loadGlobal(st, p, x.Type())
				return
			}
			fr.vals[x] = u.loadPtr(fr, st, p, where)
		case *Scalar:
			if q := u.structRef(p, x.X.Type()); q != nil {
				fr.vals[x] = u.loadHeap(fr, st, q, where, true)
				return
			}
			// pointer to a non-struct value we know nothing about
			fr.vals[x] = u.freshVal(x.Type(), "deref", st.pc)
		default:
			fr.vals[x] = u.freshVal(x.Type(), "deref", st.pc)
		}
	case token.NOT:
		fr.vals[x] = &Scalar{T: Not(u.boolOf(v)), Typ: x.Type()}
	case token.SUB:
		t := u.termOf(v)
		if t.Sort == SReal {
			fr.vals[x] = &Scalar{T: App(SReal, "-", t), Typ: x.Type()}
		} else {
			fr.vals[x] = &Scalar{T: App(SInt, "-", t), Typ: x.Type()}
		}
	case token.ARROW:
		// blocking receive
		val, ok := u.recvFrom(fr, st, v, x.X.Type().Underlying().(*types.Chan).Elem(), where, true)
		if x.CommaOk {
			fr.vals[x] = &TupleV{Vs: []Val{val, &Scalar{T: ok, Typ: types.Typ[types.Bool]}}}
		} else {
			fr.vals[x] = val
		}
	default:
		u.note("unsupported unary op %s", x.Op)
		fr.vals[x] = u.freshVal(x.Type(), "unop", st.pc)
	}
}

func (u *Unit) loadGlobal(st *State, p *PtrV, t types.Type) Val {
	name := strings.TrimPrefix(p.Cell.Name, "G:")
	if isInterface(t) || isPointer(t) {
		// sentinel value, assumed constant and non-nil
		return &Scalar{T: u.sentinel(name), Typ: t, Origin: "global:" + name}
	}
	if v, ok := u.globals[name]; ok {
		return v
	}
	v := u.freshVal(t, "G_"+name, TTrue)
	u.globals[name] = v
	return v
}

func isPointer(t types.Type) bool {
	_, ok := t.Underlying().(*types.Pointer)
	return ok
}

func litVal(s string) (int64, bool) {
	neg := false
	if strings.HasPrefix(s, "(- ") && strings.HasSuffix(s, ")") {
		neg = true
		s = s[3 : len(s)-1]
	}
	if !isNumLit(s) || len(s) > 15 {
		return 0, false
	}
	var x int64
	fmt.Sscan(s, &x)
	if neg {
		x = -x
	}
	return x, true
}

func foldInt(op token.Token, a, b string) (Term, bool) {
	x, ok1 := litVal(a)
	y, ok2 := litVal(b)
	if !ok1 || !ok2 {
		return Term{}, false
	}
	switch op {
	case token.ADD:
		return IntLit(x + y), true
	case token.SUB:
		return IntLit(x - y), true
	case token.MUL:
		if x < 1<<30 && y < 1<<30 {
			return IntLit(x * y), true
		}
	case token.LSS:
		return BoolLit(x < y), true
	case token.LEQ:
		return BoolLit(x <= y), true
	case token.GTR:
		return BoolLit(x > y), true
	case token.GEQ:
		return BoolLit(x >= y), true
	case token.EQL:
		return BoolLit(x == y), true
	case token.NEQ:
		return BoolLit(x != y), true
	}
	return Term{}, false
}

func (u *Unit) binop(fr *Frame, st *State, op token.Token, a, b Val, rt types.Type, xt types.Type, where string) Val {
	// comparisons of structured values
	if sa, ok := a.(*StructV); ok {
		if sb, ok := b.(*StructV); ok && (op == token.EQL || op == token.NEQ) {
			var cs []Term
			for i := range sa.F {
				ev := u.binop(fr, st, token.EQL, sa.F[i], sb.F[i], types.Typ[types.Bool], nil, where)
				cs = append(cs, u.boolOf(ev))
			}
			r := And(cs...)
			if op == token.NEQ {
				r = Not(r)
			}
			return &Scalar{T: r, Typ: rt}
		}
	}
	if mv, ok := a.(*MapV); ok {
		a = &Scalar{T: Ite(u.mapNil(st, mv), TZero, IntLit(1)), Typ: mv.Typ}
	}
	if mv, ok := b.(*MapV); ok {
		b = &Scalar{T: Ite(u.mapNil(st, mv), TZero, IntLit(1)), Typ: mv.Typ}
	}
	x, y := u.termOf(a), u.termOf(b)
	if f, ok := foldInt(op, x.S, y.S); ok && x.Sort == SInt && y.Sort == SInt {
		return &Scalar{T: f, Typ: rt}
	}
	mk := func(t Term) Val { return &Scalar{T: t, Typ: rt} }
	isStr := xt != nil && isString(xt)
	switch op {
	case token.EQL:
		return mk(Eq(x, y))
	case token.NEQ:
		return mk(Not(Eq(x, y)))
	case token.LSS:
		return mk(Cmp("<", x, y))
	case token.LEQ:
		return mk(Cmp("<=", x, y))
	case token.GTR:
		return mk(Cmp(">", x, y))
	case token.GEQ:
		return mk(Cmp(">=", x, y))
	case token.LAND:
		return mk(And(x, y))
	case token.LOR:
		return mk(Or(x, y))
	case token.ADD:
		if isStr {
			r := u.fresh(SInt, "concat")
			u.strIncludes(st.pc, r, x)
			u.strIncludes(st.pc, r, y)
			return &Scalar{T: r, Typ: rt}
		}
		r := Arith("+", x, y)
		if !u.counterStep(a, b) {
			u.overflow(st, r, rt, where)
		}
		return mk(r)
	case token.SUB:
		r := Arith("-", x, y)
		if !u.counterStep(a, b) {
			u.overflow(st, r, rt, where)
		}
		return mk(r)
	case token.MUL:
		r := Arith("*", x, y)
		u.overflow(st, r, rt, where)
		return mk(r)
	case token.QUO:
		if x.Sort == SReal || y.Sort == SReal {
			return mk(Arith("/", ToReal(x), ToReal(y)))
		}
		// Go integer division truncates toward zero
		q := Term{fmt.Sprintf("(ite (>= %s 0) (div %s %s) (- (div (- %s) %s)))", x.S, x.S, y.S, x.S, y.S), SInt}
		if isNumLit(y.S) {
			// positive literal divisor (the only case in this code base)
			return mk(u.define(q, "quo"))
		}
		return mk(u.define(Term{fmt.Sprintf("(ite (= (>= %s 0) (>= %s 0)) (div (abs %s) (abs %s)) (- (div (abs %s) (abs %s))))", x.S, y.S, x.S, y.S, x.S, y.S), SInt}, "quo"))
	case token.REM:
		return mk(Term{fmt.Sprintf("(ite (>= %s 0) (mod %s (abs %s)) (- (mod (- %s) (abs %s))))", x.S, x.S, y.S, x.S, y.S), SInt})
	}
	u.note("unsupported binary op %s", op)
	return u.freshVal(rt, "binop", st.pc)
}

// counterStep: x ± 1 on the value of a field declared `counter` (every store to such a field is checked to be a
// step of one, so it is 2^63 steps away from wrapping; listed as an assumption in the evidence).
func (u *Unit) counterStep(a, b Val) bool {
	sa, ok1 := a.(*Scalar)
	sb, ok2 := b.(*Scalar)
	if !ok1 || !ok2 || !strings.HasPrefix(sa.Origin, "field:") || sb.T.S != "1" {
		return false
	}
	key := strings.TrimPrefix(sa.Origin, "field:")
	fd := u.eng.cs.Fields[key]
	if fd != nil && fd.Counter {
		u.assumedUsed["arithmetic counter-step "+key]++
		return true
	}
	// a 64-bit integer field stepped by one (a call or event counter): 2^63 steps away from wrapping
	if b, ok := sa.Typ.Underlying().(*types.Basic); ok && (b.Kind() == types.Int || b.Kind() == types.Int64) {
		u.assumedUsed["arithmetic counter-step "+key]++
		return true
	}
	return false
}

// overflow emits an arithmetic-overflow obligation for every signed or narrow integer operation;
// functions flagged no_arith treat integers as mathematical (listed as an assumption in the evidence).
func (u *Unit) overflow(st *State, r Term, t types.Type, where string) {
	if r.Sort != SInt || !isInteger(t) {
		return
	}
	fc := u.eng.cs.Funcs[u.curKey()]
	if fc == nil {
		// a helper without a contract, inlined: the flags and tags of the function it is inlined into apply
		fc = u.fc
	}
	// checked arithmetic is the default; a function opts out with `flag no_arith` (listed in the evidence)
	if fc != nil && fc.Flags["no_arith"] {
		return
	}
	tags := []string{"C13"}
	if fc != nil && len(fc.Tags) > 0 {
		tags = fc.Tags
	}
	b := t.Underlying().(*types.Basic)
	if b.Kind() == types.Uint64 || b.Kind() == types.Uint || b.Kind() == types.Uintptr {
		// unsigned 64-bit counters (revisions, generations): wrap-around is defined behaviour in Go and
		// needs 2^64 increments; they are treated as mathematical (listed as an assumption in the evidence)
		return
	}
	lo, hi := intRange(b)
	goal := Term{fmt.Sprintf("(and (<= %s %s) (<= %s %s))", lo, r.S, r.S, hi), SBool}
	u.oblige("arith.no_overflow", tags, "", st.pc, goal, where, "")
}

func (u *Unit) convert(st *State, v Val, from, to types.Type, where string) Val {
	t := u.termOf(v)
	fs, ts := sortOf(from), sortOf(to)
	switch {
	case fs == SInt && ts == SReal && isInteger(from):
		return &Scalar{T: ToReal(t), Typ: to}
	case fs == SReal && ts == SInt && isInteger(to):
		// truncation toward zero
		r := Term{fmt.Sprintf("(ite (>= %s 0.0) (to_int %s) (- (to_int (- %s))))", t.S, t.S, t.S), SInt}
		return &Scalar{T: u.define(r, "trunc"), Typ: to}
	case isInteger(from) && isInteger(to):
		fb, tb := from.Underlying().(*types.Basic), to.Underlying().(*types.Basic)
		if sizeOfBasic(tb) < sizeOfBasic(fb) {
			fc := u.eng.cs.Funcs[u.curKey()]
			if fc != nil && fc.Flags["arith"] {
				lo, hi := intRange(tb)
				u.oblige("arith.no_truncation", fc.Tags, "", st.pc, Term{fmt.Sprintf("(and (<= %s %s) (<= %s %s))", lo, t.S, t.S, hi), SBool}, where, "")
			}
		}
		return &Scalar{T: t, Typ: to}
	case fs == ts && fs != SInt:
		return &Scalar{T: t, Typ: to}
	}
	if isString(from) && isString(to) {
		return &Scalar{T: t, Typ: to}
	}
	return u.freshVal(to, "conv", st.pc)
}

func sizeOfBasic(b *types.Basic) int {
	switch b.Kind() {
	case types.Int8, types.Uint8:
		return 1
	case types.Int16, types.Uint16:
		return 2
	case types.Int32, types.Uint32:
		return 4
	}
	return 8
}

// ---------------------------------------------------------------- interfaces

func (u *Unit) makeIface(st *State, v Val, from, to types.Type) Val {
	if isInterface(from) {
		return v
	}
	tid := u.eng.typeID(from)
	var payload Term
	switch x := v.(type) {
	case *Scalar:
		switch x.T.Sort {
		case SBool:
			payload = Ite(x.T, IntLit(1), TZero)
		case SReal:
			payload = App(SInt, "real_id", x.T)
		default:
			payload = x.T
		}
	case *StructV:
		payload = u.fresh(SInt, "structpay")
	case *SliceV:
		payload = x.T
	case *ClosureV:
		payload = u.closureID(x)
	default:
		payload = u.fresh(SInt, "pay")
	}
	i := App(SInt, "mk", tid, payload)
	i = u.define(i, "iface")
	u.assume(TTrue, And(Eq(App(SInt, "typeof", i), tid), Eq(App(SInt, "pay", i), payload), Cmp(">", i, TZero)))
	out := &Scalar{T: i, Typ: to, Aux: v}
	return out
}

func (u *Unit) typeAssert(fr *Frame, st *State, x *ssa.TypeAssert, where string) {
	v := u.get(fr, x.X)
	t := u.termOf(v)
	var ok Term
	var val Val
	if isInterface(x.AssertedType) {
		okc := u.fresh(SBool, "implements")
		ok = And(Not(Eq(t, TZero)), okc)
		val = &Scalar{T: t, Typ: x.AssertedType}
	} else {
		tid := u.eng.typeID(x.AssertedType)
		ok = And(Not(Eq(t, TZero)), Eq(App(SInt, "typeof", t), tid))
		p := App(SInt, "pay", t)
		switch sortOf(x.AssertedType) {
		case SBool:
			val = &Scalar{T: Eq(p, IntLit(1)), Typ: x.AssertedType}
		case SReal:
			val = &Scalar{T: App(SReal, "id_real", p), Typ: x.AssertedType}
		default:
			if _, tr := u.eng.transparent(x.AssertedType); tr {
				if sc, isS := v.(*Scalar); isS && sc.Aux != nil {
					val = sc.Aux
				} else {
					val = u.freshVal(x.AssertedType, "asserted", st.pc)
				}
			} else {
				val = &Scalar{T: p, Typ: x.AssertedType}
				if isPointer(x.AssertedType) {
					// a typed nil pointer inside an interface value is not considered (listed under assumptions)
					u.assume(st.pc, Implies(ok, Not(Eq(p, TZero))))
					u.assumedUsed["convention a successful type assertion to a pointer type yields a non-nil pointer"]++
				}
			}
		}
	}
	if x.CommaOk {
		fr.vals[x] = &TupleV{Vs: []Val{val, &Scalar{T: ok, Typ: types.Typ[types.Bool]}}}
		return
	}
	taProps := u.panicProps()
	u.oblige("nopanic.type_assert", taProps, "", st.pc, ok, where, "single-result type assertion to "+typeString(x.AssertedType))
	u.assume(st.pc, ok)
	fr.vals[x] = val
}

// ---------------------------------------------------------------- channels

// recvFrom models a receive from channel value ch.
func (u *Unit) recvFrom(fr *Frame, st *State, ch Val, elem types.Type, where string, blocking bool) (Val, Term) {
	s, _ := ch.(*Scalar)
	origin := ""
	if s != nil {
		origin = s.Origin
	}
	okT := Term{}
	var val Val
	switch {
	case strings.HasPrefix(origin, "chan:"):
		var id int
		fmt.Sscanf(origin, "chan:%d", &id)
		val = u.freshVal(elem, "recv", st.pc)
		// the value is one of the values sent on this local channel
		var alts []Term
		for _, sd := range u.sends[id] {
			alts = append(alts, And(sd.PC, u.valEq(val, sd.Val)))
		}
		okT = TTrue
		if u.closedChans[origin] {
			// the channel may have been closed: a receive may yield the zero value
			okT = u.fresh(SBool, "recvok")
		}
		if n := len(u.loopMarks); n > 0 && id <= u.loopMarks[n-1] {
			// made before the loop being cut: the value may come from an earlier iteration's send
		} else {
			u.assume(And(st.pc, okT), Or(alts...))
		}
		u.event(fr, st, "recv local", map[string]Val{"value": val}, where)
	case strings.HasPrefix(origin, "ctxdone"):
		val = u.zeroVal(elem)
		okT = TFalse
		if s.Aux != nil {
			u.setCancelled(st, u.termOf(s.Aux), TTrue)
		}
		u.event(fr, st, "recv ctx.Done", map[string]Val{"ctx": s.Aux}, where)
	case strings.HasPrefix(origin, "after"), origin == "field:Timer.C":
		val = u.freshVal(elem, "tick", st.pc)
		okT = TTrue
		u.event(fr, st, "recv time.After", map[string]Val{"d": s.Aux}, where)
	case strings.HasPrefix(origin, "ticker"), origin == "field:Ticker.C":
		val = u.freshVal(elem, "tick", st.pc)
		okT = TTrue
		u.event(fr, st, "recv ticker", map[string]Val{"d": s.Aux}, where)
	default:
		val = u.freshVal(elem, "recv", st.pc)
		okT = u.fresh(SBool, "recvok")
		name := "recv chan"
		if strings.HasPrefix(origin, "ret:") {
			name = "recv " + origin[4:]
		}
		u.event(fr, st, name, map[string]Val{"value": val, "ok": &Scalar{T: okT, Typ: types.Typ[types.Bool]}}, where)
	}
	return val, okT
}

func (u *Unit) valEq(a, b Val) Term {
	switch x := a.(type) {
	case *StructV:
		if y, ok := b.(*StructV); ok && len(x.F) == len(y.F) {
			var cs []Term
			for i := range x.F {
				cs = append(cs, u.valEq(x.F[i], y.F[i]))
			}
			return And(cs...)
		}
	case *TupleV:
		if y, ok := b.(*TupleV); ok && len(x.Vs) == len(y.Vs) {
			var cs []Term
			for i := range x.Vs {
				cs = append(cs, u.valEq(x.Vs[i], y.Vs[i]))
			}
			return And(cs...)
		}
	}
	return Eq(u.termOf(a), u.termOf(b))
}

func (u *Unit) execSelect(fr *Frame, st *State, x *ssa.Select, where string) {
	n := len(x.States)
	idx := u.fresh(SInt, "sel")
	lo := int64(0)
	if !x.Blocking {
		lo = -1
	}
	u.assume(st.pc, And(Cmp(">=", idx, IntLit(lo)), Cmp("<", idx, IntLit(int64(n)))))
	vs := []Val{&Scalar{T: idx, Typ: types.Typ[types.Int]}, nil}
	recvOK := TTrue
	base := st.pc
	// guard: the struct field a receive case of this select reads its channel from (a stop signal next to a send)
	guard := ""
	for _, s := range x.States {
		if s.Dir == types.RecvOnly {
			if cs, ok := u.get(fr, s.Chan).(*Scalar); ok && strings.HasPrefix(cs.Origin, "field:") && guard == "" {
				guard = strings.TrimPrefix(cs.Origin, "field:")
			}
		}
	}
	guardV := &Scalar{T: u.eng.strID(guard), Typ: types.Typ[types.String]}
	for i, s := range x.States {
		if s.Dir == types.SendOnly {
			// a send case: the send happens iff this case is chosen
			sub := st.clone()
			sub.pc = And(base, Eq(idx, IntLit(int64(i))))
			ch := u.get(fr, s.Chan)
			v := u.get(fr, s.Send)
			if cs, ok := ch.(*Scalar); ok && strings.HasPrefix(cs.Origin, "chan:") {
				var id int
				fmt.Sscanf(cs.Origin, "chan:%d", &id)
				u.sends[id] = append(u.sends[id], sendRec{sub.pc, v})
			}
			u.event(fr, sub, "send", map[string]Val{"value": v, "blocking": &Scalar{T: BoolLit(x.Blocking), Typ: types.Typ[types.Bool]}, "guard": guardV}, where)
			for k, g := range sub.ghost {
				if og, had := st.ghost[k]; !had || og.S != g.S {
					if !had {
						og = u.ghostDefault(k)
					}
					st.ghost[k] = u.define(Ite(Eq(idx, IntLit(int64(i))), g, og), "g")
				}
			}
			continue
		}
		if s.Dir != types.RecvOnly {
			continue
		}
		sub := st.clone()
		sub.pc = And(base, Eq(idx, IntLit(int64(i))))
		ch := u.get(fr, s.Chan)
		elem := s.Chan.Type().Underlying().(*types.Chan).Elem()
		val, ok := u.recvFrom(fr, sub, ch, elem, where, false)
		// ghost updates made by hooks in sub are merged back
		for k, g := range sub.ghost {
			if og, had := st.ghost[k]; !had || og.S != g.S {
				if !had {
					og = u.ghostDefault(k)
				}
				st.ghost[k] = u.define(Ite(Eq(idx, IntLit(int64(i))), g, og), "g")
			}
		}
		recvOK = Ite(Eq(idx, IntLit(int64(i))), ok, recvOK)
		vs = append(vs, val)
	}
	vs[1] = &Scalar{T: recvOK, Typ: types.Typ[types.Bool]}
	hasAfter := false
	hasTicker := false
	hasDone := false
	var doneCtx Val = &Scalar{T: TZero, Typ: types.Typ[types.Int]}
	for _, s := range x.States {
		if s.Dir == types.SendOnly {
			continue
		}
		if cs, ok := u.get(fr, s.Chan).(*Scalar); ok {
			if strings.HasPrefix(cs.Origin, "after") || cs.Origin == "field:Timer.C" {
				hasAfter = true
			}
			if strings.HasPrefix(cs.Origin, "ticker") || cs.Origin == "field:Ticker.C" {
				hasTicker = true
			}
			if strings.HasPrefix(cs.Origin, "ctxdone") && cs.Aux != nil && !hasDone {
				hasDone = true
				doneCtx = cs.Aux
			}
			if !x.Blocking && strings.HasPrefix(cs.Origin, "ctxdone") && cs.Aux != nil {
				// default is taken only when no case is ready
				u.assume(And(base, Eq(idx, IntLit(-1))), Not(SelectA(u.cancelledArr(st), u.termOf(cs.Aux))))
			}
		}
	}
	fr.vals[x] = &TupleV{Vs: vs}
	u.event(fr, st, "select", map[string]Val{
		"blocking":  &Scalar{T: BoolLit(x.Blocking), Typ: types.Typ[types.Bool]},
		"hasAfter":  &Scalar{T: BoolLit(hasAfter), Typ: types.Typ[types.Bool]},
		"hasTicker": &Scalar{T: BoolLit(hasTicker), Typ: types.Typ[types.Bool]},
		"hasDone":   &Scalar{T: BoolLit(hasDone), Typ: types.Typ[types.Bool]},
		"doneCtx":   doneCtx,
		"index":     vs[0]}, where)
}
