package main

import (
	"bufio"
	"fmt"
	"os"
	"regexp"
	"strconv"
	"strings"
)

// Clause is a labelled contract expression. Prop is the property id
// ("C16") or "" for helper clauses; Label the obligation label.
type Clause struct {
	Prop  string
	Label string
	Expr  *Expr
	Src   string
	Line  int
}

func (c Clause) FullLabel() string {
	if c.Prop == "" {
		return c.Label
	}
	// a clause serving several properties is named after the first
	p := c.Prop
	if i := strings.Index(p, "+"); i >= 0 {
		p = p[:i]
	}
	return p + "." + c.Label
}

type GhostDecl struct {
	Name string
	Sort Sort
	Init *Expr
	Out  bool // ghost result: visible to modular callers through the ret event
	// Spawned: assignments made inside a goroutine this activation starts stay visible in the
	// activation: the ghost names a value that goroutine computes (a prophecy of its result)
	Spawned bool
}

type Hook struct {
	Event  string // "call becomeFollower", "store kvElection.revision", ...
	As     string
	When   *Expr
	Assert *Clause
	Set    string
	SetVal *Expr
	Assume *Expr
	Line   int
}

type LoopSpec struct {
	Invariants []Clause
	Decreases  *Expr
	Blocking   bool
}

type FuncContract struct {
	Key      string // "validateConfig", "kvElection.becomeFollower", "kvElection.becomeLeader$3", "iface:KeyValue.Update"
	Header   string
	Params   []string // from header (iface contracts use them)
	Requires []Clause
	Ensures  []Clause
	Assumes  []Clause
	Defines  []Clause // definitional postconditions: assumed by callers, not proved (pure functions defining a spec symbol)
	Ghosts   []GhostDecl
	Hooks    []Hook
	Loops    map[int]*LoopSpec
	Tags     []string
	Flags    map[string]bool
	Modifies []string // field keys the function may write (modular callers havoc only these); nil = default
	Line     int
	Used     bool
}

type FieldDecl struct {
	Key     string // "kvElection.isLeader"
	Class   string // immutable | atomic | guarded_by | owned_by | ghost
	Lock    string // field name of the lock in the same struct ("mu") for guarded_by / write_under
	Owners  []string
	Inv     *Clause // value invariant over v: checked at stores, assumed at loads
	OnStore *Clause // store-site policy: checked at stores only
	Sort    Sort
	AType   string // for atomic.Value: contained Go type ("string", "time.Time")
	Mono    bool   // ghost field that only ever goes from false to true
	Counter bool   // integer field changed by steps of one only (checked at every store): 2^63 steps away from wrapping, treated as mathematical
	Line    int
	Props   []string
}

type LockInv struct {
	Lock   string // "kvElection.mu"
	Clause Clause
}

type SpecFn struct {
	Name   string
	Params []string
	Body   *Expr
}

type UFun struct {
	Name string
	Args []Sort
	Ret  Sort
}

type Contracts struct {
	Funcs      map[string]*FuncContract
	Fields     map[string]*FieldDecl
	LockInvs   []LockInv
	LockOrder  [][2]string // a < b : a must be taken before b
	Specs      map[string]*SpecFn
	UFuns      map[string]*UFun
	Axioms     []Clause
	Consts     map[string]*Expr
	Always     *FuncContract // ghosts and hooks that apply to every verification unit
	ObjInvs    []LockInv     // Lock field holds the struct name
	GhostSorts map[string]Sort
	Path       string
	NLines     int
}

var clauseLabelRE = regexp.MustCompile(`^\s*(?:(C[0-9]{2,3}(?:\+C[0-9]{2,3})*)\.)?([A-Za-z_][A-Za-z0-9_\.\(\)\->]*)\s*:\s*(.*)$`)

func parseClause(text string, line int) (Clause, error) {
	c := Clause{Line: line}
	m := clauseLabelRE.FindStringSubmatch(text)
	body := text
	if m != nil && !strings.HasPrefix(strings.TrimSpace(m[3]), "=") {
		c.Prop, c.Label, body = m[1], m[2], m[3]
	} else {
		c.Label = fmt.Sprintf("L%d", line)
	}
	e, err := ParseExpr(body)
	if err != nil {
		return c, fmt.Errorf("line %d: %v", line, err)
	}
	c.Expr = e
	c.Src = strings.TrimSpace(body)
	return c, nil
}

func parseSort(s string) Sort {
	switch strings.TrimSpace(s) {
	case "Bool", "bool":
		return SBool
	case "Real", "float64":
		return SReal
	}
	return SInt
}

var funcHeaderRE = regexp.MustCompile(`^func\s*(?:\(\s*\w*\s*\*?(\w+)\s*\)\s*)?([\w\$]+)\s*(?:\(([^)]*)\))?`)
var ifaceHeaderRE = regexp.MustCompile(`^(iface|extern)\s+([\w\.\*/\-]+)\s*(?:\(([^)]*)\))?`)

func LoadContracts(path string) (*Contracts, error) {
	f, err := os.Open(path)
	if err != nil {
		return nil, err
	}
	defer f.Close()
	cs := &Contracts{Funcs: map[string]*FuncContract{}, Fields: map[string]*FieldDecl{}, Specs: map[string]*SpecFn{}, UFuns: map[string]*UFun{}, Consts: map[string]*Expr{}, Path: path}

	type rawLine struct {
		text   string
		indent int
		line   int
	}
	var raws []rawLine
	sc := bufio.NewScanner(f)
	sc.Buffer(make([]byte, 1<<20), 1<<20)
	ln := 0
	for sc.Scan() {
		ln++
		s := strings.TrimSpace(sc.Text())
		var rest string
		switch {
		case strings.HasPrefix(s, "//@"):
			rest = s[3:]
		case strings.HasPrefix(s, "// @"):
			rest = s[4:]
		default:
			continue
		}
		// strip trailing comment " // ..." (not inside a string)
		if i := strings.Index(rest, " //"); i >= 0 && strings.Count(rest[:i], `"`)%2 == 0 {
			rest = rest[:i]
		}
		trimmed := strings.TrimLeft(rest, " \t")
		if trimmed == "" {
			continue
		}
		raws = append(raws, rawLine{strings.TrimRight(trimmed, " \t"), len(rest) - len(trimmed), ln})
	}
	cs.NLines = len(raws)

	topKW := map[string]bool{"always": true, "objinv": true, "spec": true, "ufun": true, "axiom": true, "const": true, "field": true, "lockinv": true, "lockorder": true, "func": true, "iface": true, "extern": true}
	subKW := map[string]bool{"defines": true, "requires": true, "ensures": true, "assumes": true, "ghost": true, "on": true, "loop": true, "tags": true, "flag": true, "modifies": true}
	firstWord := func(s string) string {
		if i := strings.IndexAny(s, " \t("); i >= 0 {
			return s[:i]
		}
		return s
	}
	// join continuation lines
	type item struct {
		text string
		top  bool
		line int
	}
	var items []item
	for _, r := range raws {
		w := firstWord(r.text)
		if r.indent <= 1 && topKW[w] {
			items = append(items, item{r.text, true, r.line})
		} else if r.indent >= 2 && subKW[w] {
			items = append(items, item{r.text, false, r.line})
		} else {
			if len(items) == 0 {
				return nil, fmt.Errorf("%s:%d: continuation without a clause", path, r.line)
			}
			items[len(items)-1].text += " " + r.text
		}
	}

	var cur *FuncContract
	for _, it := range items {
		w := firstWord(it.text)
		rest := strings.TrimSpace(it.text[len(w):])
		fail := func(err error) error { return fmt.Errorf("%s:%d: %v", path, it.line, err) }
		if it.top {
			cur = nil
			switch w {
			case "spec":
				// spec Name(a, b) = expr
				i := strings.Index(rest, "=")
				lp := strings.Index(rest, "(")
				rp := strings.Index(rest, ")")
				if i < 0 || lp < 0 || rp < lp || rp > i {
					return nil, fail(fmt.Errorf("bad spec"))
				}
				// find the '=' after ')'
				i = rp + strings.Index(rest[rp:], "=")
				sp := &SpecFn{Name: strings.TrimSpace(rest[:lp])}
				for _, p := range strings.Split(rest[lp+1:rp], ",") {
					p = strings.TrimSpace(p)
					if p != "" {
						sp.Params = append(sp.Params, strings.Fields(p)[0])
					}
				}
				e, err := ParseExpr(rest[i+1:])
				if err != nil {
					return nil, fail(err)
				}
				sp.Body = e
				cs.Specs[sp.Name] = sp
			case "ufun":
				// ufun Name(Int, Int) Bool
				lp := strings.Index(rest, "(")
				rp := strings.Index(rest, ")")
				if lp < 0 || rp < lp {
					return nil, fail(fmt.Errorf("bad ufun"))
				}
				u := &UFun{Name: strings.TrimSpace(rest[:lp]), Ret: parseSort(rest[rp+1:])}
				for _, p := range strings.Split(rest[lp+1:rp], ",") {
					if strings.TrimSpace(p) != "" {
						u.Args = append(u.Args, parseSort(p))
					}
				}
				cs.UFuns[u.Name] = u
			case "axiom":
				c, err := parseClause(rest, it.line)
				if err != nil {
					return nil, fail(err)
				}
				cs.Axioms = append(cs.Axioms, c)
			case "const":
				i := strings.Index(rest, "=")
				if i < 0 {
					return nil, fail(fmt.Errorf("bad const"))
				}
				e, err := ParseExpr(rest[i+1:])
				if err != nil {
					return nil, fail(err)
				}
				cs.Consts[strings.TrimSpace(rest[:i])] = e
			case "field":
				// field T.f class [args] [type X] [inv Label: expr] [props C01 C02]
				fd := &FieldDecl{Line: it.line}
				body := rest
				for {
					i, j := strings.LastIndex(body, " inv "), strings.LastIndex(body, " onstore ")
					if i < 0 && j < 0 {
						break
					}
					if i > j {
						c, err := parseClause(body[i+5:], it.line)
						if err != nil {
							return nil, fail(err)
						}
						fd.Inv = &c
						body = body[:i]
					} else {
						c, err := parseClause(body[j+9:], it.line)
						if err != nil {
							return nil, fail(err)
						}
						fd.OnStore = &c
						body = body[:j]
					}
				}
				fs := strings.Fields(body)
				if len(fs) < 2 {
					return nil, fail(fmt.Errorf("bad field decl"))
				}
				fd.Key = fs[0]
				for k := 1; k < len(fs); k++ {
					t := fs[k]
					switch {
					case t == "monotone":
						fd.Mono = true
					case t == "counter":
						fd.Counter = true
					case t == "props" && k+1 < len(fs):
						fd.Props = strings.Split(fs[k+1], ",")
						k++
					case t == "immutable" || t == "atomic" || t == "ghost" || t == "plain" || t == "sync":
						if fd.Class == "" {
							fd.Class = t
						}
					case strings.HasPrefix(t, "guarded_by("):
						fd.Class = "guarded_by"
						fd.Lock = strings.TrimSuffix(strings.TrimPrefix(t, "guarded_by("), ")")
					case strings.HasPrefix(t, "write_under("):
						fd.Lock = strings.TrimSuffix(strings.TrimPrefix(t, "write_under("), ")")
					case strings.HasPrefix(t, "owned_by("):
						fd.Class = "owned_by"
						fd.Owners = strings.Split(strings.TrimSuffix(strings.TrimPrefix(t, "owned_by("), ")"), ",")
					case t == "type" && k+1 < len(fs):
						fd.AType = fs[k+1]
						k++
					case t == "sort" && k+1 < len(fs):
						fd.Sort = parseSort(fs[k+1])
						k++
					default:
						return nil, fail(fmt.Errorf("unknown field attribute %q", t))
					}
				}
				cs.Fields[fd.Key] = fd
			case "always":
				cur = &FuncContract{Key: "*", Header: it.text, Loops: map[int]*LoopSpec{}, Flags: map[string]bool{}, Line: it.line}
				cs.Always = cur
				continue
			case "objinv":
				fs := strings.SplitN(rest, " ", 2)
				if len(fs) < 2 {
					return nil, fail(fmt.Errorf("bad objinv"))
				}
				c, err := parseClause(fs[1], it.line)
				if err != nil {
					return nil, fail(err)
				}
				cs.ObjInvs = append(cs.ObjInvs, LockInv{fs[0], c})
			case "lockinv":
				fs := strings.SplitN(rest, " ", 2)
				if len(fs) < 2 {
					return nil, fail(fmt.Errorf("bad lockinv"))
				}
				c, err := parseClause(fs[1], it.line)
				if err != nil {
					return nil, fail(err)
				}
				cs.LockInvs = append(cs.LockInvs, LockInv{fs[0], c})
			case "lockorder":
				fs := strings.Fields(rest)
				if len(fs) != 3 || fs[1] != "<" {
					return nil, fail(fmt.Errorf("bad lockorder"))
				}
				cs.LockOrder = append(cs.LockOrder, [2]string{fs[0], fs[2]})
			case "func":
				m := funcHeaderRE.FindStringSubmatch(it.text)
				if m == nil {
					return nil, fail(fmt.Errorf("bad func header"))
				}
				key := m[2]
				if m[1] != "" {
					key = m[1] + "." + m[2]
				}
				cur = &FuncContract{Key: key, Header: it.text, Loops: map[int]*LoopSpec{}, Flags: map[string]bool{}, Line: it.line}
				if _, dup := cs.Funcs[key]; dup {
					return nil, fail(fmt.Errorf("duplicate contract for %s", key))
				}
				cs.Funcs[key] = cur
			case "iface", "extern":
				m := ifaceHeaderRE.FindStringSubmatch(it.text)
				if m == nil {
					return nil, fail(fmt.Errorf("bad iface header"))
				}
				cur = &FuncContract{Key: m[1] + ":" + m[2], Header: it.text, Loops: map[int]*LoopSpec{}, Flags: map[string]bool{}, Line: it.line}
				for _, p := range strings.Split(m[3], ",") {
					if p = strings.TrimSpace(p); p != "" {
						cur.Params = append(cur.Params, p)
					}
				}
				cs.Funcs[cur.Key] = cur
			}
			continue
		}
		if cur == nil {
			return nil, fail(fmt.Errorf("clause outside func/iface block"))
		}
		switch w {
		case "requires", "ensures", "assumes", "defines":
			c, err := parseClause(rest, it.line)
			if err != nil {
				return nil, fail(err)
			}
			switch w {
			case "defines":
				cur.Defines = append(cur.Defines, c)
			case "requires":
				cur.Requires = append(cur.Requires, c)
			case "ensures":
				cur.Ensures = append(cur.Ensures, c)
			default:
				cur.Assumes = append(cur.Assumes, c)
			}
		case "ghost":
			// ghost name Sort = init
			i := strings.Index(rest, "=")
			if i < 0 {
				return nil, fail(fmt.Errorf("bad ghost"))
			}
			fs := strings.Fields(rest[:i])
			out := false
			spawned := false
			if len(fs) == 3 && fs[0] == "out" {
				out = true
				fs = fs[1:]
			}
			if len(fs) == 3 && fs[0] == "spawned" {
				spawned = true
				fs = fs[1:]
			}
			if len(fs) != 2 {
				return nil, fail(fmt.Errorf("bad ghost decl"))
			}
			e, err := ParseExpr(rest[i+1:])
			if err != nil {
				return nil, fail(err)
			}
			cur.Ghosts = append(cur.Ghosts, GhostDecl{fs[0], parseSort(fs[1]), e, out, spawned})
		case "tags":
			cur.Tags = append(cur.Tags, strings.Fields(rest)...)
		case "flag":
			for _, fl := range strings.Fields(rest) {
				cur.Flags[fl] = true
			}
		case "modifies":
			if cur.Modifies == nil {
				cur.Modifies = []string{}
			}
			for _, fl := range strings.Fields(rest) {
				if fl != "nothing" {
					cur.Modifies = append(cur.Modifies, fl)
				}
			}
		case "loop":
			fs := strings.SplitN(rest, " ", 3)
			k, err := strconv.Atoi(fs[0])
			if err != nil || len(fs) < 2 {
				return nil, fail(fmt.Errorf("bad loop clause"))
			}
			ls := cur.Loops[k]
			if ls == nil {
				ls = &LoopSpec{}
				cur.Loops[k] = ls
			}
			switch fs[1] {
			case "invariant":
				c, err := parseClause(fs[2], it.line)
				if err != nil {
					return nil, fail(err)
				}
				ls.Invariants = append(ls.Invariants, c)
			case "decreases":
				e, err := ParseExpr(fs[2])
				if err != nil {
					return nil, fail(err)
				}
				ls.Decreases = e
			case "blocking":
				ls.Blocking = true
			default:
				return nil, fail(fmt.Errorf("bad loop clause kind %q", fs[1]))
			}
		case "on":
			h := Hook{Line: it.line}
			body := rest
			action := ""
			best := -1
			pb := " " + body
			for _, kw := range []string{"assert", "set", "assume"} {
				if i := strings.Index(pb, " "+kw+" "); i >= 0 && (best < 0 || i < best) {
					best, action = i, kw
				}
			}
			if action == "" {
				return nil, fail(fmt.Errorf("on-clause without action"))
			}
			actText := strings.TrimSpace(pb[best+len(action)+2:])
			head := strings.TrimSpace(pb[:best])
			if j := strings.Index(head, " when "); j >= 0 {
				e, err := ParseExpr(head[j+6:])
				if err != nil {
					return nil, fail(err)
				}
				h.When = e
				head = strings.TrimSpace(head[:j])
			}
			if j := strings.Index(head, " as "); j >= 0 {
				h.As = strings.TrimSpace(head[j+4:])
				head = strings.TrimSpace(head[:j])
			}
			h.Event = strings.Join(strings.Fields(head), " ")
			switch action {
			case "assert":
				c, err := parseClause(actText, it.line)
				if err != nil {
					return nil, fail(err)
				}
				h.Assert = &c
			case "assume":
				e, err := ParseExpr(actText)
				if err != nil {
					return nil, fail(err)
				}
				h.Assume = e
			case "set":
				k := strings.Index(actText, "=")
				if k < 0 {
					return nil, fail(fmt.Errorf("bad set"))
				}
				h.Set = strings.TrimSpace(actText[:k])
				e, err := ParseExpr(actText[k+1:])
				if err != nil {
					return nil, fail(err)
				}
				h.SetVal = e
			}
			cur.Hooks = append(cur.Hooks, h)
		}
	}
	cs.GhostSorts = map[string]Sort{}
	for _, fc := range cs.Funcs {
		for _, g := range fc.Ghosts {
			cs.GhostSorts[g.Name] = g.Sort
		}
	}
	if cs.Always != nil {
		for _, g := range cs.Always.Ghosts {
			cs.GhostSorts[g.Name] = g.Sort
		}
	}
	return cs, nil
}

// headerNames: the receiver name and the parameter names a contract header uses ("func (e *T) f(a, b)").
func (fc *FuncContract) headerNames() (recv string, params []string) {
	h := fc.Header
	if i := strings.Index(h, "func"); i >= 0 {
		h = strings.TrimSpace(h[i+4:])
	}
	if strings.HasPrefix(h, "(") {
		if j := strings.Index(h, ")"); j > 0 {
			fs := strings.Fields(strings.Trim(h[1:j], " "))
			if len(fs) == 2 {
				recv = fs[0]
			}
			h = h[j+1:]
		}
	}
	if a, b := strings.Index(h, "("), strings.LastIndex(h, ")"); a >= 0 && b > a {
		for _, q := range strings.Split(h[a+1:b], ",") {
			if q = strings.TrimSpace(q); q != "" {
				params = append(params, strings.Fields(q)[0])
			}
		}
	}
	return
}
