package main

import (
	"fmt"
	"go/types"
	"strings"

	"golang.org/x/tools/go/ssa"
)

type EventV struct{ F map[string]Val }

func (u *Unit) execCall(fr *Frame, st *State, cc *ssa.CallCommon, instr ssa.Instruction, mode, where string) Val {
	fnv := u.get(fr, cc.Value)
	var args []Val
	for _, a := range cc.Args {
		args = append(args, u.get(fr, a))
	}
	return u.execCallVals(fr, st, cc, fnv, args, instr, mode, where)
}

func (u *Unit) execCallVals(fr *Frame, st *State, cc *ssa.CallCommon, fnv Val, args []Val, instr ssa.Instruction, mode, where string) Val {
	sig := cc.Signature()
	if cc.IsInvoke() {
		return u.invoke(fr, st, cc, fnv, args, where)
	}
	switch f := fnv.(type) {
	case *ClosureV:
		return u.callFunction(fr, st, f.Fn.(*ssa.Function), f.Binds, args, where, false)
	case *Scalar:
		if strings.HasPrefix(f.Origin, "builtin:") {
			return u.builtin(fr, st, f.Origin[8:], args, cc, where)
		}
		return u.dynCall(fr, st, f, args, sig, where)
	}
	u.note("call of %T value in %s", fnv, fr.key)
	return u.freshResults(sig, "dyn", st.pc)
}

func (u *Unit) freshResults(sig *types.Signature, hint string, pc Term) Val {
	switch sig.Results().Len() {
	case 0:
		return nil
	case 1:
		return u.freshVal(sig.Results().At(0).Type(), hint, pc)
	}
	return u.freshVal(sig.Results(), hint, pc)
}

// ---------------------------------------------------------------- events

func (u *Unit) bump(st *State, key string, by int64) {
	cur, ok := st.ghost[key]
	if !ok {
		cur = TZero
	}
	if isNumLit(cur.S) {
		var n int64
		fmt.Sscan(cur.S, &n)
		st.ghost[key] = IntLit(n + by)
		return
	}
	st.ghost[key] = u.define(Arith("+", cur, IntLit(by)), "cnt")
}

func (u *Unit) event(fr *Frame, st *State, name string, binds map[string]Val, where string, alts ...string) {
	if strings.HasPrefix(name, "call ") {
		u.bump(st, "calls:"+name[5:], 1)
	}
	if strings.HasPrefix(name, "spawn ") {
		u.bump(st, "spawns:"+name[6:], 1)
	}
	// a renamed function is still known to the contracts by its old name
	if i := strings.Index(name, " "); i > 0 {
		if old, ok := u.eng.renamed[name[i+1:]]; ok {
			alts = append(append([]string{}, alts...), name[:i+1]+old)
			switch name[:i] {
			case "call":
				u.bump(st, "calls:"+old, 1)
			case "spawn":
				u.bump(st, "spawns:"+old, 1)
			}
		}
	}
	var hooks []*Hook
	if al := u.eng.cs.Always; al != nil {
		for i := range al.Hooks {
			hooks = append(hooks, &al.Hooks[i])
		}
	}
	if u.fc != nil {
		for i := range u.fc.Hooks {
			hooks = append(hooks, &u.fc.Hooks[i])
		}
	}
	for _, h := range hooks {
		if h.Event != name && u.eng.normEvent(h.Event) != name {
			matched := false
			for _, a := range alts {
				if h.Event == a {
					matched = true
				}
			}
			if !matched {
				continue
			}
		}
		env := u.newEnv(fr, st, u.entry)
		if h.As != "" {
			env.vars[h.As] = &EventV{F: binds}
		}
		cond := TTrue
		if h.When != nil {
			cond = u.evalBool(env, h.When)
		}
		switch {
		case h.Assert != nil:
			g := u.evalBool(env, h.Assert.Expr)
			u.oblige(h.Assert.FullLabel(), propList(h.Assert.Prop), "", And(st.pc, cond), g, where, h.Assert.Src)
		case h.Assume != nil:
			u.assume(And(st.pc, cond), u.evalBool(env, h.Assume))
		case h.Set != "" && strings.Contains(h.Set, "."):
			// ghost field of an object: obj.field = value
			i := strings.LastIndex(h.Set, ".")
			be, err := ParseExpr(h.Set[:i])
			if err != nil {
				u.note("bad set target %s", h.Set)
				continue
			}
			bv := u.eval(env, be)
			bs, ok := bv.(*Scalar)
			if !ok || bs.Typ == nil || !isPointer(bs.Typ) {
				u.note("set target %s is not a pointer", h.Set)
				continue
			}
			root := structRootName(bs.Typ.Underlying().(*types.Pointer).Elem())
			key := root + "." + h.Set[i+1:]
			fd := u.eng.cs.Fields[key]
			if fd == nil || fd.Class != "ghost" {
				u.note("set target %s is not a declared ghost field", key)
				continue
			}
			v := u.evalTerm(env, h.SetVal)
			arr := u.heapArr(st, key, fd.Sort)
			if lk := u.lockKeyFor(fd); lk != "" {
				u.oblige("guarded_store("+key+")", propsOfField(fd, "C18"), "", And(st.pc, cond), Eq(u.heldTerm(st, lk, bs.T), IntLit(2)), where, "ghost field "+key+" is written under "+lk)
			}
			st.heap[key] = u.define(Ite(cond, StoreA(arr, bs.T, v), arr), "Hg")
		case h.Set != "":
			v := u.evalTerm(env, h.SetVal)
			key := "g:" + h.Set
			old, ok := st.ghost[key]
			if !ok {
				old = u.ghostDefault(key)
			}
			st.ghost[key] = u.define(Ite(cond, v, old), "g_"+h.Set)
		}
	}
}

func bindArgs(names []string, args []Val) map[string]Val {
	m := map[string]Val{}
	for i, a := range args {
		if i < len(names) && names[i] != "" && names[i] != "_" {
			m[names[i]] = a
		}
		m[fmt.Sprintf("arg%d", i)] = a
	}
	return m
}

func bindResult(m map[string]Val, res Val) {
	if res == nil {
		return
	}
	m["result"] = res
	if tv, ok := res.(*TupleV); ok {
		for i, v := range tv.Vs {
			m[fmt.Sprintf("result%d", i)] = v
		}
	} else {
		m["result0"] = res
	}
}

// ---------------------------------------------------------------- package / external functions

func (u *Unit) callFunction(fr *Frame, st *State, fn *ssa.Function, binds, args []Val, where string, spawned bool) Val {
	if strings.Contains(fn.Name(), "$bound") && len(binds) == 1 {
		if m := u.boundTarget(fn); m != nil {
			return u.callFunction(fr, st, m, nil, append([]Val{binds[0]}, args...), where, spawned)
		}
	}
	root := fn
	for root.Parent() != nil {
		root = root.Parent()
	}
	if root.Pkg != u.eng.pkg {
		// inside the reference store model (internal/natsmock) a call to another function of the model is a package
		// call: a helper without a contract is inlined there as it is in the library itself
		inModel := func(p *ssa.Package) bool { return p != nil && strings.HasSuffix(p.Pkg.Path(), "internal/natsmock") }
		if !(inModel(root.Pkg) && fr != nil && fr.fn != nil && inModel(fr.fn.Pkg) && fn.Blocks != nil) {
			return u.intrinsic(fr, st, fn, args, where)
		}
	}
	key := u.eng.funcKey(fn)
	if fc := u.eng.cs.Funcs[key]; fc != nil && !fc.Flags["inline"] {
		return u.modularCall(fr, st, fn, fc, key, args, where, spawned)
	}
	return u.inline(fr, st, fn, key, binds, args, where)
}

func (u *Unit) boundTarget(fn *ssa.Function) *ssa.Function {
	// the wrapper's single call is the target method
	for _, b := range fn.Blocks {
		for _, in := range b.Instrs {
			if c, ok := in.(*ssa.Call); ok {
				if sc := c.Call.StaticCallee(); sc != nil {
					return sc
				}
			}
		}
	}
	return nil
}

func paramNames(fn *ssa.Function) []string {
	var ns []string
	for _, p := range fn.Params {
		ns = append(ns, p.Name())
	}
	return ns
}

func (u *Unit) inline(fr *Frame, st *State, fn *ssa.Function, key string, binds, args []Val, where string) Val {
	for _, s := range u.stack {
		if s == fn {
			u.note("recursive call of %s not inlined", key)
			u.unmodelled["recursion:"+key]++
			return u.freshResults(fn.Signature, "rec", st.pc)
		}
	}
	if len(u.stack) > 8 {
		u.note("inline depth exceeded at %s", key)
		return u.freshResults(fn.Signature, "deep", st.pc)
	}
	if fn.Blocks == nil {
		u.unmodelled[fn.String()]++
		return u.freshResults(fn.Signature, "ext", st.pc)
	}
	m := bindArgs(paramNames(fn), args)
	u.event(fr, st, "call "+bareName(key), m, where)
	nf := &Frame{fn: fn, key: key, vals: map[ssa.Value]Val{}, unit: u, hooks: fr.hooks, parent: fr}
	for i, p := range fn.Params {
		if i < len(args) {
			nf.vals[p] = args[i]
		}
	}
	for i, fv := range fn.FreeVars {
		if i < len(binds) {
			nf.vals[fv] = binds[i]
		}
	}
	u.stack = append(u.stack, fn)
	exit, ret := u.execFunction(nf, st)
	u.stack = u.stack[:len(u.stack)-1]
	if exit == nil {
		st.pc = TFalse
		return u.freshResults(fn.Signature, "noret", TFalse)
	}
	*st = *exit
	delete(st.defers, nf)
	bindResult(m, ret)
	u.event(fr, st, "ret "+bareName(key), m, where)
	return ret
}

// escapingClosures: a closure of this package handed to a function that is called through its contract is run by
// that function some unknown number of times. Its body is checked once on a copy of the state (with the heap
// havocked, like a goroutine), and every call counted inside it becomes an unknown count in the caller, so that no
// clause about "how often" can be proved from it by accident.
func (u *Unit) escapingClosures(fr *Frame, st *State, args []Val, where, callee string) {
	for _, a := range args {
		cv, ok := a.(*ClosureV)
		if !ok {
			continue
		}
		target, ok := cv.Fn.(*ssa.Function)
		if !ok || target.Blocks == nil || target.Parent() == nil {
			continue
		}
		root := target
		for root.Parent() != nil {
			root = root.Parent()
		}
		if root.Pkg != u.eng.pkg || u.spawnDepth > 3 {
			continue
		}
		sub := st.clone()
		for k := range sub.ghost {
			if strings.HasPrefix(k, "calls:") {
				sub.ghost[k] = TZero
			}
		}
		sub.defers = map[*Frame][]*DeferRec{}
		u.havocHeap(sub, nil, "escape")
		u.spawnDepth++
		u.callFunction(fr, sub, target, cv.Binds, nil, where, false)
		u.spawnDepth--
		for k, v := range sub.ghost {
			if strings.HasPrefix(k, "calls:") && v.S != "0" {
				n := u.fresh(SInt, "escaped_"+sanitize(k[6:]))
				u.assume(TTrue, Cmp(">=", n, TZero))
				cur, ok := st.ghost["scalls:"+k[6:]]
				if !ok {
					cur = TZero
				}
				st.ghost["scalls:"+k[6:]] = u.define(Arith("+", cur, n), "sc")
			}
		}
		u.note("closure %s escapes into %s: checked once, call counts unknown", u.eng.funcKey(target), callee)
	}
}

func (u *Unit) modularCall(fr *Frame, st *State, fn *ssa.Function, fc *FuncContract, key string, args []Val, where string, spawned bool) Val {
	fc.Used = true
	u.escapingClosures(fr, st, args, where, key)
	names := contractParamNames(fn, fc)
	m := bindArgs(names, args)
	// parameters that the code has grouped into a struct are still known to the contract by their own names
	for _, a := range args {
		if sv, ok := a.(*StructV); ok {
			for j, fnm := range structFieldNames(sv) {
				if _, taken := m[fnm]; !taken && j < len(sv.F) {
					m[fnm] = sv.F[j]
				}
			}
		}
	}
	bare := bareName(key)
	env := u.newEnv(fr, st, st)
	env.vars = map[string]Val{}
	for k, v := range m {
		env.vars[k] = v
	}
	env.callee = true
	site := bare
	if spawned {
		site = "go:" + bare
	}
	u.event(fr, st, "call "+bare, m, where)
	env.st = st
	for _, c := range fc.Requires {
		g := u.evalBool(env, c.Expr)
		props := propList(c.Prop)
		if len(props) == 0 {
			props = fc.Tags
		}
		u.oblige(c.FullLabel(), props, site, st.pc, g, where, c.Src)
	}
	// locks the callee may take must not be held (self-deadlock) and must respect the order
	for _, lk := range sortedKeys(u.eng.mayAcquire(fn)) {
		u.oblige("lock.no_reentry("+lk+")", []string{"C09", "C11", "C13", "C03", "C06", "C04", "C08", "C12"}, site, st.pc, Eq(u.nheld(st, lk), TZero), where, "callee may acquire "+lk)
		u.lockOrder(st, lk, site, where)
	}
	pre := st.clone()
	var only map[string]bool
	if fc.Modifies != nil {
		only = map[string]bool{}
		for _, k := range fc.Modifies {
			only[k] = true
		}
	}
	if !fc.Flags["pure"] {
		u.havocHeap(st, only, "call "+bare)
	}
	res := u.freshResults(fn.Signature, "r_"+bare, st.pc)
	env2 := u.newEnv(fr, st, pre)
	env2.vars = map[string]Val{}
	for k, v := range m {
		env2.vars[k] = v
	}
	bindResult(env2.vars, res)
	env2.callee = true
	for _, g := range fc.Ghosts {
		// the callee's ghost variables are unknown to the caller; only "out" ones are exported
		gv := &Scalar{T: u.fresh(g.Sort, "gout_"+g.Name), Typ: types.Typ[types.Int]}
		env2.vars[g.Name] = gv
		if g.Out {
			m[g.Name] = gv
		}
	}
	for _, c := range fc.Ensures {
		u.assume(st.pc, u.evalBool(env2, c.Expr))
	}
	for _, c := range fc.Defines {
		u.assume(st.pc, u.evalBool(env2, c.Expr))
	}
	bindResult(m, res)
	u.event(fr, st, "ret "+bare, m, where)
	return res
}

func (u *Unit) lockOrder(st *State, lk, site, where string) {
	for _, o := range u.eng.cs.LockOrder {
		if o[0] == lk {
			// lk must be taken before o[1]: holding o[1] now is an inversion
			u.oblige("lock.order("+o[1]+"->"+lk+")", []string{"C09", "C11", "C13", "C03", "C06", "C04", "C08", "C12"}, site, st.pc, Eq(u.nheld(st, o[1]), TZero), where, "declared order "+o[0]+" < "+o[1])
		}
	}
}

// mayAcquire: lock keys a function may acquire, transitively through
// static calls (not through spawned goroutines).
func (e *Engine) mayAcquire(fn *ssa.Function) map[string]bool {
	if m, ok := e.mayAcq[fn]; ok {
		return m
	}
	m := map[string]bool{}
	e.mayAcq[fn] = m
	var visit func(f *ssa.Function, seen map[*ssa.Function]bool)
	visit = func(f *ssa.Function, seen map[*ssa.Function]bool) {
		if seen[f] || f.Blocks == nil {
			return
		}
		seen[f] = true
		for _, b := range f.Blocks {
			for _, in := range b.Instrs {
				var cc *ssa.CallCommon
				switch x := in.(type) {
				case *ssa.Call:
					cc = &x.Call
				case *ssa.Defer:
					cc = &x.Call
				}
				if cc == nil || cc.IsInvoke() {
					continue
				}
				sc := cc.StaticCallee()
				if sc == nil {
					if mc, ok := cc.Value.(*ssa.MakeClosure); ok {
						sc = mc.Fn.(*ssa.Function)
					} else {
						continue
					}
				}
				n := sc.String()
				if n == "(*sync.RWMutex).Lock" || n == "(*sync.RWMutex).RLock" || n == "(*sync.Mutex).Lock" {
					if fa, ok := cc.Args[0].(*ssa.FieldAddr); ok {
						pt := fa.X.Type().Underlying().(*types.Pointer).Elem()
						st := pt.Underlying().(*types.Struct)
						m[structRootName(pt)+"."+st.Field(fa.Field).Name()] = true
					}
					continue
				}
				root := sc
				for root.Parent() != nil {
					root = root.Parent()
				}
				if root.Pkg == e.pkg {
					visit(sc, seen)
				}
			}
		}
	}
	visit(fn, map[*ssa.Function]bool{})
	return m
}

// ---------------------------------------------------------------- dynamic calls

func (u *Unit) dynCall(fr *Frame, st *State, f *Scalar, args []Val, sig *types.Signature, where string) Val {
	name := "dyn"
	switch {
	case strings.HasPrefix(f.Origin, "field:"):
		name = bareName(f.Origin[6:])
	case strings.HasPrefix(f.Origin, "param:"):
		name = f.Origin[6:]
	case strings.HasPrefix(f.Origin, "cancel"):
		name = "ctxcancel"
		if f.Aux != nil {
			u.setCancelled(st, u.termOf(f.Aux), TTrue)
		}
	}
	if typeString(sig) == "func()" && f.Typ != nil && typeString(f.Typ) == "context.CancelFunc" {
		u.setCancelled(st, App(SInt, "CancelTarget", f.T), TTrue)
	}
	m := bindArgs(nil, args)
	m["fn"] = f
	if f.Aux != nil {
		m["ctx"] = f.Aux
	}
	u.oblige("nopanic.nil_func", u.panicProps(), name, st.pc, Not(Eq(f.T, TZero)), where, "call of nil function value")
	full := name
	if strings.HasPrefix(f.Origin, "field:") {
		full = f.Origin[6:]
	}
	u.event(fr, st, "call "+name, m, where, "call "+full)
	res := u.freshResults(sig, "r_"+name, st.pc)
	bindResult(m, res)
	u.event(fr, st, "ret "+name, m, where, "ret "+full)
	return res
}

func (u *Unit) cancelledArr(st *State) Term {
	if t, ok := st.ghost["cancelled"]; ok {
		return t
	}
	t := u.ghostDefault("cancelled")
	st.ghost["cancelled"] = t
	return t
}

func (u *Unit) setCancelled(st *State, ctx Term, v Term) {
	st.ghost["cancelled"] = u.define(StoreA(u.cancelledArr(st), ctx, v), "canc")
}

// ---------------------------------------------------------------- go statements

func (u *Unit) execGo(fr *Frame, st *State, x *ssa.Go, where string) {
	cc := &x.Call
	var args []Val
	for _, a := range cc.Args {
		args = append(args, u.get(fr, a))
	}
	fnv := u.get(fr, cc.Value)
	name := "dyn"
	var target *ssa.Function
	var binds []Val
	switch f := fnv.(type) {
	case *ClosureV:
		target = f.Fn.(*ssa.Function)
		binds = f.Binds
		name = bareName(u.eng.funcKey(target))
	case *Scalar:
		if strings.HasPrefix(f.Origin, "field:") {
			name = bareName(f.Origin[6:])
		}
	}
	if cc.IsInvoke() {
		name = ifaceTypeName(cc.Value.Type()) + "." + cc.Method.Name()
	}
	m := bindArgs(nil, args)
	if target != nil {
		m = bindArgs(paramNames(target), args)
	}
	// tracking by the wait group
	exempt := u.fc != nil && (u.fc.Flags["spawn_exempt"] || u.fc.Flags["spawn_exempt:"+name])
	if !exempt && u.fc != nil && target != nil {
		// spawn_exempt:@X — a goroutine whose body calls X (named by what it does, not by its closure ordinal)
		for fl := range u.fc.Flags {
			if strings.HasPrefix(fl, "spawn_exempt:@") && u.fnCallsNamed(target, fl[len("spawn_exempt:@"):]) {
				exempt = true
			}
		}
	}
	if !exempt && u.spawnDepth == 0 {
		wg, ok := st.ghost["wgadd"]
		if !ok {
			wg = TZero
		}
		deferred := target != nil && startsWithDeferredDone(target)
		if deferred {
			// an unannounced goroutine that calls Done drives the counter negative: a panic (C13) besides the lost wait (C09)
			u.oblige("spawn.tracked", []string{"C09", "C13", "C20", "C06"}, "go:"+name, st.pc, Cmp(">=", wg, IntLit(1)), where, "goroutine must be announced with wg.Add(1)")
		} else {
			u.structural("spawn.tracked", []string{"C09", "C20"}, "go:"+name, false, where, "goroutine body does not start with defer wg.Done()")
		}
	}
	if wg, ok := st.ghost["wgadd"]; ok && !wg.IsFalse() {
		st.ghost["wgadd"] = u.define(Ite(Cmp(">=", wg, IntLit(1)), Arith("-", wg, IntLit(1)), wg), "wg")
	}
	u.event(fr, st, "spawn "+name, m, where, "spawn")
	if target == nil {
		// function value: count it as a spawned call
		u.bump(st, "scalls:"+name, 1)
		return
	}
	u.forkRun(fr, st, target, binds, args, where, name)
}

// forkRun executes a goroutine body (or a registered callback) on a copy
// of the state: no locks held, shared heap arbitrary. The parent continues
// unaffected except for the "spawned calls" counters.
func (u *Unit) forkRun(fr *Frame, st *State, target *ssa.Function, binds, args []Val, where, name string) {
	if u.spawnDepth > 3 {
		u.note("spawn depth exceeded at %s", name)
		return
	}
	sub := st.clone()
	for k := range sub.ghost {
		if strings.HasPrefix(k, "held:") || strings.HasPrefix(k, "nheld:") || k == "wgadd" {
			delete(sub.ghost, k)
		}
		if strings.HasPrefix(k, "calls:") {
			sub.ghost[k] = TZero
		}
	}
	sub.defers = map[*Frame][]*DeferRec{}
	sub.acq = nil
	u.havocHeap(sub, nil, "spawn")
	u.spawnDepth++
	u.callFunction(fr, sub, target, binds, args, where, true)
	u.spawnDepth--
	if fr.hooks != nil {
		for _, g := range fr.hooks.Ghosts {
			if g.Spawned {
				if v, ok := sub.ghost["g:"+g.Name]; ok {
					st.ghost["g:"+g.Name] = v
				}
			}
		}
	}
	for k, v := range sub.ghost {
		if strings.HasPrefix(k, "calls:") && v.S != "0" {
			key := "scalls:" + k[6:]
			cur, ok := st.ghost[key]
			if !ok {
				cur = TZero
			}
			st.ghost[key] = u.define(Arith("+", cur, v), "sc")
		}
		if strings.HasPrefix(k, "scalls:") {
			if pv, ok := st.ghost[k]; !ok || pv.S != v.S {
				st.ghost[k] = v
			}
		}
	}
}

func startsWithDeferredDone(fn *ssa.Function) bool {
	if len(fn.Blocks) == 0 {
		return false
	}
	for _, in := range fn.Blocks[0].Instrs {
		switch x := in.(type) {
		case *ssa.Defer:
			if sc := x.Call.StaticCallee(); sc != nil && sc.String() == "(*sync.WaitGroup).Done" {
				return true
			}
		case *ssa.Store:
			// spilling a parameter that a closure captures into its local cell is not an action
			if _, local := x.Addr.(*ssa.Alloc); local {
				continue
			}
			return false
		case *ssa.Call, *ssa.Go, *ssa.Select, *ssa.Send:
			return false
		}
	}
	return false
}

// ifaceAliases: unexported interfaces that stand for an interface the contracts name (set up by the engine).
var ifaceAliases = map[string]string{}

func ifaceTypeName(t types.Type) string {
	n := typeString(t)
	if a, ok := ifaceAliases[n]; ok {
		return a
	}
	return n
}

// ---------------------------------------------------------------- builtins

// knownElems: the elements of a slice value (each with the condition under which it is part of the list) when they
// are statically known: a nil slice, the backing array of a literal / variadic argument list, the result of
// appending such lists, or a merge of such values at a join.
func (u *Unit) knownElems(st *State, v Val) ([]Val, []Term, bool) {
	switch x := v.(type) {
	case nil:
		return nil, nil, true
	case *Scalar:
		if x.T.S == "0" {
			return nil, nil, true
		}
	case *SliceV:
		if x.Known {
			return x.Elems, x.Guards, true
		}
		if x.Cell != nil && x.N <= 8 && st != nil {
			et := types.Type(types.NewInterfaceType(nil, nil))
			if sl, ok := x.Typ.Underlying().(*types.Slice); ok {
				et = sl.Elem()
			}
			var out []Val
			var gs []Term
			for i := 0; i < x.N; i++ {
				out = append(out, u.loadCell(st, x.Cell, []string{fmt.Sprint(i)}, et))
				gs = append(gs, TTrue)
			}
			return out, gs, true
		}
		if x.T.S == "0" {
			return nil, nil, true
		}
	}
	return nil, nil, false
}

func (u *Unit) builtin(fr *Frame, st *State, name string, args []Val, cc *ssa.CallCommon, where string) Val {
	switch name {
	case "len":
		if s, ok := args[0].(*SliceV); ok && s.Cell != nil {
			return &Scalar{T: IntLit(int64(s.N)), Typ: types.Typ[types.Int]}
		}
		t := u.termOf(args[0])
		l := App(SInt, "LenOf", t)
		u.assume(TTrue, And(Cmp(">=", l, TZero), Cmp("<=", l, BigLit("4611686018427387904"))))
		return &Scalar{T: l, Typ: types.Typ[types.Int]}
	case "append":
		r := u.fresh(SInt, "appended")
		if len(args) == 2 {
			_, l0, ok0 := u.lenTerm(args[0], cc.Args[0].Type())
			_, l1, ok1 := u.lenTerm(args[1], cc.Args[1].Type())
			if ok0 && ok1 {
				u.assume(st.pc, Eq(App(SInt, "LenOf", r), Arith("+", l0, l1)))
			}
		}
		out := &SliceV{T: r, Typ: cc.Signature().Results().At(0).Type()}
		if len(args) == 2 {
			e0, g0, k0 := u.knownElems(st, args[0])
			e1, g1, k1 := u.knownElems(st, args[1])
			if k0 && k1 {
				out.Elems = append(append([]Val{}, e0...), e1...)
				out.Guards = append(append([]Term{}, g0...), g1...)
				out.Known = true
			}
		}
		return out
	case "close":
		if s, ok := args[0].(*Scalar); ok {
			if strings.HasPrefix(s.Origin, "chan:") {
				u.closedChans[s.Origin] = true
			}
			u.event(fr, st, "close", map[string]Val{"ch": s}, where)
		}
		return nil
	case "delete":
		if mv, ok := args[0].(*MapV); ok {
			u.mapStore(st, mv, u.termOf(args[1]), TZero, TFalse)
		}
		return nil
	case "recover":
		return u.freshVal(types.NewInterfaceType(nil, nil), "recovered", st.pc)
	case "max", "min":
		op := map[string]string{"max": ">=", "min": "<="}[name]
		acc := u.termOf(args[0])
		for _, a := range args[1:] {
			t := u.termOf(a)
			if acc.Sort != t.Sort || (acc.Sort != SInt && acc.Sort != SReal) {
				u.note("builtin %s on unsupported operands", name)
				return u.freshResults(cc.Signature(), name, st.pc)
			}
			acc = u.define(Ite(Cmp(op, acc, t), acc, t), name)
		}
		return &Scalar{T: acc, Typ: cc.Signature().Results().At(0).Type()}
	}
	u.note("builtin %s not modelled", name)
	return u.freshResults(cc.Signature(), name, st.pc)
}

// ---------------------------------------------------------------- interface method calls

var nilCheckedIfaces = map[string][]string{
	"context.Context": {"C09"},
	"Entry":           {"C13"},
	"error":           {"C13"},
	// the optional collaborators of the configuration: nil unless the caller supplied one
	"Logger":            {"C13"},
	"Metrics":           {"C13"},
	"HealthChecker":     {"C13"},
	"ConnectionMonitor": {"C13", "C11"},
}

func (u *Unit) invoke(fr *Frame, st *State, cc *ssa.CallCommon, recv Val, args []Val, where string) Val {
	iname := ifaceTypeName(cc.Value.Type())
	mname := cc.Method.Name()
	full := iname + "." + mname
	sig := cc.Signature()
	rt := u.termOf(recv)
	if props, ok := nilCheckedIfaces[iname]; ok {
		for _, pp := range u.panicProps() {
			found := false
			for _, q := range props {
				found = found || q == pp
			}
			if !found {
				props = append(append([]string{}, props...), pp)
			}
		}
		u.oblige("nopanic.nil_invoke("+iname+")", props, "", st.pc, Not(Eq(rt, TZero)), where, "method call on nil "+iname)
		u.assume(st.pc, Not(Eq(rt, TZero)))
	}
	var names []string
	for i := 0; i < sig.Params().Len(); i++ {
		names = append(names, sig.Params().At(i).Name())
	}
	m := bindArgs(names, args)
	m["recv"] = recv
	if res, ok := u.intrinsicInvoke(fr, st, full, recv, args, sig, where, m); ok {
		return res
	}
	fc := u.eng.cs.Funcs["iface:"+full]
	if fc == nil {
		u.unmodelled[full]++
		u.event(fr, st, "call "+full, m, where)
		res := u.freshResults(sig, "r_"+mname, st.pc)
		bindResult(m, res)
		u.event(fr, st, "ret "+full, m, where)
		return res
	}
	fc.Used = true
	u.assumedUsed["iface "+full]++
	for i, p := range fc.Params {
		if i < len(args) {
			m[p] = args[i]
		}
	}
	u.event(fr, st, "call "+full, m, where)
	env := u.newEnv(fr, st, u.entry)
	for k, v := range m {
		env.vars[k] = v
	}
	for _, c := range fc.Requires {
		g := u.evalBool(env, c.Expr)
		u.oblige(c.FullLabel(), propList(c.Prop), full, st.pc, g, where, c.Src)
	}
	res := u.freshResults(sig, "r_"+mname, st.pc)
	bindResult(m, res)
	env2 := u.newEnv(fr, st, u.entry)
	for k, v := range m {
		env2.vars[k] = v
	}
	for _, c := range fc.Assumes {
		u.assume(st.pc, u.evalBool(env2, c.Expr))
	}
	u.event(fr, st, "ret "+full, m, where)
	return res
}

// normEvent rewrites "call T.m" to "call m" when T.m is a package function
// (events of package functions carry the bare name).
func (e *Engine) normEvent(ev string) string {
	i := strings.Index(ev, " ")
	if i < 0 {
		return ev
	}
	kind, target := ev[:i], ev[i+1:]
	if _, ok := e.funcs[target]; ok {
		return kind + " " + bareName(target)
	}
	return ev
}

// fnCallsNamed: fn contains a direct call of the function or interface method called name ("KeyValue.Update",
// "attemptAcquire").
func (u *Unit) fnCallsNamed(fn *ssa.Function, name string) bool {
	return u.fnCallsNamedDepth(fn, name, 3)
}

// fnCallsNamedDepth also looks into the package helpers without a contract that fn calls (they are inlined where
// they are called, so what they call is what fn calls).
func (u *Unit) fnCallsNamedDepth(fn *ssa.Function, name string, depth int) bool {
	for _, b := range fn.Blocks {
		for _, in := range b.Instrs {
			ci, ok := in.(ssa.CallInstruction)
			if !ok {
				continue
			}
			cc := ci.Common()
			if cc.IsInvoke() {
				if ifaceTypeName(cc.Value.Type())+"."+cc.Method.Name() == name {
					return true
				}
				continue
			}
			if sc := cc.StaticCallee(); sc != nil {
				k := u.eng.funcKey(sc)
				if k == name || bareName(k) == name {
					return true
				}
				if depth > 0 && sc.Pkg == fn.Pkg && sc.Blocks != nil && u.eng.cs.Funcs[k] == nil {
					if u.fnCallsNamedDepth(sc, name, depth-1) {
						return true
					}
				}
			}
		}
	}
	return false
}

// contractParamNames: the names under which a contract knows the parameters of its function. They are the names of
// its header, bound by position, so that renaming a receiver or a parameter in the code does not detach the contract;
// if the header lists a different number of parameters the names of the code are used.
func contractParamNames(fn *ssa.Function, fc *FuncContract) []string {
	names := paramNames(fn)
	if fc == nil {
		return names
	}
	recv, ps := fc.headerNames()
	off := 0
	if fn.Signature.Recv() != nil {
		off = 1
	}
	if len(ps) != len(names)-off {
		return names
	}
	out := append([]string{}, names...)
	if off == 1 && recv != "" {
		out[0] = recv
	}
	for i, q := range ps {
		out[off+i] = q
	}
	return out
}
