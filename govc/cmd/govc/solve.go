package main

import (
	"bytes"
	"context"
	"fmt"
	"os"
	"os/exec"
	"path/filepath"
	"sort"
	"strings"
	"sync"
	"time"
)

type SolveResult struct {
	Verdict  string // unsat | sat | unknown | timeout | error | trivial
	Backend  string
	Ms       int64
	Model    string
	File     string
	Output   string
	Part     int
	All      map[string]string // backend -> verdict (thorough)
	Disagree bool
}

func (e *Engine) prelude(u *Unit) string {
	var b strings.Builder
	b.WriteString("(set-option :produce-models true)\n(set-logic ALL)\n")
	declare := func(f *UFun) {
		var as []string
		for _, a := range f.Args {
			as = append(as, sortSMT(a))
		}
		fmt.Fprintf(&b, "(declare-fun %s (%s) %s)\n", f.Name, strings.Join(as, " "), sortSMT(f.Ret))
	}
	for _, k := range sortedKeys(builtinUFuns) {
		declare(builtinUFuns[k])
	}
	for _, k := range sortedKeys(e.cs.UFuns) {
		if _, dup := builtinUFuns[k]; !dup {
			declare(e.cs.UFuns[k])
		}
	}
	return b.String()
}

func (u *Unit) query(part oblPart, negate bool) string {
	var b strings.Builder
	b.WriteString(u.eng.prelude(u))
	for _, d := range u.decls {
		b.WriteString(d)
		b.WriteByte('\n')
	}
	for _, f := range u.facts {
		b.WriteString(f)
		b.WriteByte('\n')
	}
	for _, l := range u.globalAxioms {
		b.WriteString(l)
		b.WriteByte('\n')
	}
	n := part.NLines
	if n > len(u.lines) {
		n = len(u.lines)
	}
	for _, l := range u.lines[:n] {
		b.WriteString(l)
		b.WriteByte('\n')
	}
	if negate {
		fmt.Fprintf(&b, "(assert %s)\n(assert (not %s))\n", part.PC.S, part.Goal.S)
	} else {
		fmt.Fprintf(&b, "(assert %s)\n", part.PC.S)
	}
	b.WriteString("(check-sat)\n(get-model)\n")
	return b.String()
}

type solverSpec struct {
	Name string
	Args func(file string, secs int) []string
}

var solvers = []solverSpec{
	{"z3-new", func(f string, s int) []string { return []string{"z3-new", fmt.Sprintf("-T:%d", s), f} }},
	{"cvc5", func(f string, s int) []string {
		return []string{"cvc5", "--produce-models", fmt.Sprintf("--tlimit=%d", s*1000), f}
	}},
	{"z3", func(f string, s int) []string { return []string{"z3", fmt.Sprintf("-T:%d", s), f} }},
}

func runSolver(sp solverSpec, file string, secs int, seed int) (verdict, output string, ms int64) {
	args := sp.Args(file, secs)
	if seed != 0 && strings.HasPrefix(sp.Name, "z3") {
		args = append(args[:1], append([]string{fmt.Sprintf("smt.random_seed=%d", seed), fmt.Sprintf("sat.random_seed=%d", seed)}, args[1:]...)...)
	}
	if seed != 0 && sp.Name == "cvc5" {
		args = append(args[:1], append([]string{fmt.Sprintf("--seed=%d", seed)}, args[1:]...)...)
	}
	ctx, cancel := context.WithTimeout(context.Background(), time.Duration(secs+5)*time.Second)
	defer cancel()
	cmd := exec.CommandContext(ctx, args[0], args[1:]...)
	var out bytes.Buffer
	cmd.Stdout = &out
	cmd.Stderr = &out
	t0 := time.Now()
	_ = cmd.Run()
	ms = time.Since(t0).Milliseconds()
	output = out.String()
	first := strings.TrimSpace(strings.SplitN(output, "\n", 2)[0])
	switch first {
	case "unsat", "sat", "unknown":
		verdict = first
	case "timeout":
		verdict = "timeout"
	default:
		if ctx.Err() != nil || strings.Contains(output, "interrupted by timeout") || strings.Contains(output, "timeout") {
			verdict = "timeout"
		} else {
			verdict = "error"
		}
	}
	return
}

// solvePart decides one (pc => goal). quick: first solver that answers
// sat/unsat; thorough: all solvers, verdicts compared.
func solvePart(u *Unit, ob *Obligation, idx int, workDir string, tier string, seed int) *SolveResult {
	part := ob.Parts[idx]
	if part.Goal.IsTrue() {
		return &SolveResult{Verdict: "trivial", Backend: "simplifier", Part: idx}
	}
	name := sanitize(ob.Name)
	if len(name) > 150 {
		name = name[:150]
	}
	file := filepath.Join(workDir, fmt.Sprintf("%s.p%d.smt2", name, idx))
	_ = os.WriteFile(file, []byte("; obligation "+ob.Name+"\n; "+ob.Src+"\n"+u.query(part, true)), 0o644)
	res := &SolveResult{File: file, Part: idx, All: map[string]string{}}
	secs := 10
	if tier == "thorough" {
		secs = 30
	}
	for _, sp := range solvers {
		v, out, ms := runSolver(sp, file, secs, seed)
		res.Ms += ms
		res.All[sp.Name] = v
		if v == "sat" || v == "unsat" {
			if res.Verdict == "" || res.Verdict == "unknown" || res.Verdict == "timeout" || res.Verdict == "error" {
				res.Verdict, res.Backend, res.Output = v, sp.Name, out
				if v == "sat" {
					res.Model = out
				}
			}
			if tier != "thorough" {
				break
			}
		} else if res.Verdict == "" {
			res.Verdict, res.Backend, res.Output = v, sp.Name, out
		}
	}
	if res.Verdict != "sat" && res.Verdict != "unsat" {
		// no solver answered within its budget (a loaded machine, most likely): one patient retry per solver
		// before the obligation is reported as undecided
		for _, sp := range solvers {
			v, out, ms := runSolver(sp, file, 180, seed)
			res.Ms += ms
			res.All[sp.Name+"(retry)"] = v
			if v == "sat" || v == "unsat" {
				res.Verdict, res.Backend, res.Output = v, sp.Name, out
				if v == "sat" {
					res.Model = out
				}
				break
			}
		}
	}
	res.Disagree = disagreement(res)
	return res
}

func solveAll(obls []*Obligation, workDir, tier string, seed int) {
	_ = os.MkdirAll(workDir, 0o755)
	type job struct {
		ob  *Obligation
		idx int
	}
	var jobs []job
	for _, ob := range obls {
		if ob.Kind != "smt" {
			continue
		}
		for i := range ob.Parts {
			jobs = append(jobs, job{ob, i})
		}
	}
	if seed != 0 {
		// seed-dependent dispatch order (never changes which obligations exist)
		sort.SliceStable(jobs, func(i, j int) bool {
			return (i*7919+seed)%len(jobs) < (j*7919+seed)%len(jobs)
		})
	}
	results := make([]*SolveResult, len(jobs))
	var wg sync.WaitGroup
	sem := make(chan struct{}, 16)
	for i, j := range jobs {
		wg.Add(1)
		sem <- struct{}{}
		go func(i int, j job) {
			defer wg.Done()
			defer func() { <-sem }()
			results[i] = solvePart(j.ob.Unit, j.ob, j.idx, workDir, tier, seed)
		}(i, j)
	}
	wg.Wait()
	// fold part results into the obligation
	byOb := map[*Obligation][]*SolveResult{}
	for i, j := range jobs {
		byOb[j.ob] = append(byOb[j.ob], results[i])
	}
	for ob, rs := range byOb {
		agg := &SolveResult{Verdict: "unsat", All: map[string]string{}}
		for _, r := range rs {
			agg.Ms += r.Ms
			if r.Disagree {
				agg.Disagree = true
			}
			for k, v := range r.All {
				if prev, ok := agg.All[k]; !ok || prev == "unsat" || prev == "trivial" {
					agg.All[k] = v
				}
			}
			if r.Verdict == "trivial" {
				if agg.Backend == "" {
					agg.Backend = "simplifier"
				}
				continue
			}
			if r.Verdict == "unsat" {
				if agg.Backend == "" || agg.Backend == "simplifier" {
					agg.Backend = r.Backend
				}
				if agg.File == "" {
					agg.File = r.File
				}
				continue
			}
			// first failing part decides
			if agg.Verdict == "unsat" || (agg.Verdict != "sat" && r.Verdict == "sat") {
				agg.Verdict, agg.Backend, agg.Model, agg.File, agg.Output, agg.Part = r.Verdict, r.Backend, r.Model, r.File, r.Output, r.Part
			}
		}
		ob.Result = agg
	}
}

// solver disagreement (thorough): one says sat, another unsat on the same part
func disagreement(r *SolveResult) bool {
	hasSat, hasUnsat := false, false
	for _, v := range r.All {
		if v == "sat" {
			hasSat = true
		}
		if v == "unsat" {
			hasUnsat = true
		}
	}
	return hasSat && hasUnsat
}
