package main

import (
	"fmt"
	"go/constant"
	"go/types"
	"strconv"
	"strings"

	"golang.org/x/tools/go/ssa"
)

type Env struct {
	u          *Unit
	fr         *Frame
	st         *State
	old        *State
	vars       map[string]Val
	this       *Scalar
	callee     bool // evaluating a callee's contract: do not resolve caller locals
	rootAssume bool
	depth      int
}

func (u *Unit) newEnv(fr *Frame, st *State, old *State) *Env {
	return &Env{u: u, fr: fr, st: st, old: old, vars: map[string]Val{}}
}

func (u *Unit) evalBool(env *Env, e *Expr) Term {
	v := u.eval(env, e)
	t := u.termOf(v)
	if t.Sort != SBool {
		u.note("contract expression %s is not boolean", e)
		return Not(Eq(t, TZero))
	}
	return t
}

func (u *Unit) evalTerm(env *Env, e *Expr) Term {
	return u.termOf(u.eval(env, e))
}

func (u *Unit) lookupLocal(env *Env, name string) (Val, bool) {
	if env.fr == nil || env.callee {
		return nil, false
	}
	// The names of a contract are those of the function it is written on (and of its closures). An event may
	// fire inside a helper that was inlined: its parameters and locals are not in scope (they could even
	// capture a name of the contract), so resolution starts at the nearest enclosing frame of the owner.
	fr := env.fr
	if u.root != nil {
		owned := func(f *ssa.Function) bool {
			for f.Parent() != nil {
				f = f.Parent()
			}
			return f == u.root
		}
		for fr != nil && fr.fn != nil && !owned(fr.fn) {
			fr = fr.parent
		}
		if fr == nil {
			return nil, false
		}
	}
	var rootFr *Frame
	for ; fr != nil; fr = fr.parent {
		if v, ok := u.lookupIn(env, fr, name); ok {
			return v, true
		}
		if fr.fn == u.root {
			rootFr = fr
		}
		if fr.fn == nil || fr.fn.Parent() == nil {
			break
		}
	}
	// The contract may still use the names its header gives to the receiver and the parameters (the code may have
	// renamed them), or the name of a parameter that has since been grouped with others into a struct parameter.
	if rootFr != nil && u.fc != nil {
		hn := contractParamNames(u.root, u.fc)
		for i, p := range u.root.Params {
			if i < len(hn) && hn[i] == name && p.Name() != name {
				if v, ok := rootFr.vals[p]; ok {
					return v, true
				}
			}
		}
		var found Val
		n := 0
		for _, p := range u.root.Params {
			sv, ok := rootFr.vals[p].(*StructV)
			if !ok {
				continue
			}
			for j, fnm := range structFieldNames(sv) {
				if fnm == name && j < len(sv.F) {
					found = sv.F[j]
					n++
				}
			}
		}
		if n == 1 {
			return found, true
		}
	}
	return nil, false
}

func (u *Unit) lookupIn(env *Env, fr *Frame, name string) (Val, bool) {
	for _, p := range fr.fn.Params {
		if p.Name() == name {
			if v, ok := fr.vals[p]; ok {
				return v, true
			}
		}
	}
	for _, fv := range fr.fn.FreeVars {
		if fv.Name() == name {
			if v, ok := fr.vals[fv]; ok {
				if p, ok := v.(*PtrV); ok {
					return u.loadPtr(fr, env.st, p, ""), true
				}
				return v, true
			}
		}
	}
	// address-taken locals (cells) by name
	for v, val := range fr.vals {
		if al, ok := v.(*ssa.Alloc); ok && al.Comment == name {
			if p, ok := val.(*PtrV); ok {
				return u.loadPtr(fr, env.st, p, ""), true
			}
			return val, true
		}
	}
	return nil, false
}

func (u *Unit) eval(env *Env, e *Expr) Val {
	env.depth++
	defer func() { env.depth-- }()
	if env.depth > 64 {
		u.note("contract expression too deep")
		return &Scalar{T: TTrue}
	}
	switch e.Op {
	case "lit":
		if strings.Contains(e.Name, ".") {
			// decimal literals denote the float64 value Go would use
			return &Scalar{T: realLit(constant.MakeFloat64(mustFloat(e.Name))), Typ: types.Typ[types.Float64]}
		}
		return &Scalar{T: BigLit(e.Name), Typ: types.Typ[types.Int]}
	case "str":
		return &Scalar{T: u.eng.strID(e.Name), Typ: types.Typ[types.String]}
	case "type":
		return &Scalar{T: u.eng.typeIDName(e.Name), Typ: types.Typ[types.Int]}
	case "id":
		return u.evalIdent(env, e.Name)
	case "sel":
		if id := e.Args[0]; id.Op == "id" && id.Name == "caller" {
			// ghost variable of the calling activation (default zero / false)
			srt := u.eng.cs.GhostSorts[e.Name]
			if env.rootAssume {
				// verifying the callee on its own: the caller's ghost state is arbitrary
				key := "callerghost:" + e.Name
				if t, ok := u.rootCaller[key]; ok {
					return &Scalar{T: t, Typ: types.Typ[types.Int]}
				}
				t := u.fresh(srt, "caller_"+e.Name)
				u.rootCaller[key] = t
				return &Scalar{T: t, Typ: types.Typ[types.Int]}
			}
			if g, ok := env.st.ghost["g:"+e.Name]; ok {
				return &Scalar{T: g, Typ: types.Typ[types.Int]}
			}
			switch srt {
			case SBool:
				return &Scalar{T: TFalse, Typ: types.Typ[types.Bool]}
			case SReal:
				return &Scalar{T: Term{"0.0", SReal}, Typ: types.Typ[types.Float64]}
			}
			return &Scalar{T: TZero, Typ: types.Typ[types.Int]}
		}
		// qualified constant: time.Second
		if id := e.Args[0]; id.Op == "id" {
			if _, isVar := env.vars[id.Name]; !isVar {
				if v, ok := u.qualified(id.Name, e.Name); ok {
					return v
				}
			}
		}
		return u.selectField(env, u.eval(env, e.Args[0]), e.Name, e)
	case "assert":
		v := u.eval(env, e.Args[0])
		t := u.termOf(v)
		typ := u.resolveType(e.Name)
		if typ == nil {
			u.note("unknown type %s in contract", e.Name)
			return &Scalar{T: App(SInt, "pay", t), Typ: types.Typ[types.Int]}
		}
		return &Scalar{T: App(SInt, "pay", t), Typ: typ}
	case "un":
		v := u.eval(env, e.Args[0])
		t := u.termOf(v)
		if e.Name == "!" {
			return &Scalar{T: Not(t), Typ: types.Typ[types.Bool]}
		}
		return &Scalar{T: App(t.Sort, "-", t), Typ: scalarTyp(v)}
	case "cond":
		c := u.evalBool(env, e.Args[0])
		a, b := u.eval(env, e.Args[1]), u.eval(env, e.Args[2])
		return u.mergeVals(c, a, b)
	case "index":
		base := u.eval(env, e.Args[0])
		k := u.evalTerm(env, e.Args[1])
		if mv, ok := base.(*MapV); ok {
			v, _ := u.mapLookup(env.st, mv, k)
			et := types.Type(types.Typ[types.Int])
			if mt, ok := mv.Typ.Underlying().(*types.Map); ok {
				et = mt.Elem()
			}
			return &Scalar{T: v, Typ: et}
		}
		u.note("indexing a non-map in a contract expression")
		return &Scalar{T: u.fresh(SInt, "noindex"), Typ: types.Typ[types.Int]}
	case "bin":
		return u.evalBin(env, e)
	case "call":
		return u.evalCall(env, e)
	}
	u.note("cannot evaluate contract expression %s", e)
	return &Scalar{T: TTrue, Typ: types.Typ[types.Bool]}
}

func mustFloat(s string) float64 {
	f, _ := strconv.ParseFloat(s, 64)
	return f
}

func scalarTyp(v Val) types.Type {
	if s, ok := v.(*Scalar); ok && s.Typ != nil {
		return s.Typ
	}
	return types.Typ[types.Int]
}

func (u *Unit) evalIdent(env *Env, name string) Val {
	switch name {
	case "true":
		return &Scalar{T: TTrue, Typ: types.Typ[types.Bool]}
	case "false":
		return &Scalar{T: TFalse, Typ: types.Typ[types.Bool]}
	case "nil":
		return &Scalar{T: TZero, Typ: types.Typ[types.UntypedNil]}
	case "this":
		if env.this != nil {
			return env.this
		}
	}
	if v, ok := env.vars[name]; ok {
		return v
	}
	if g, ok := env.st.ghost["g:"+name]; ok {
		return &Scalar{T: g, Typ: types.Typ[types.Int]}
	}
	if _, ok := u.ghostSort[name]; ok {
		return &Scalar{T: u.ghostDefault("g:" + name), Typ: types.Typ[types.Int]}
	}
	if strings.HasPrefix(name, "$") {
		if srt, ok := u.eng.cs.GhostSorts[name]; ok {
			u.ghostSort[name] = srt
			return &Scalar{T: u.ghostDefault("g:" + name), Typ: types.Typ[types.Int]}
		}
	}
	if v, ok := u.lookupLocal(env, name); ok {
		return v
	}
	if env.this != nil {
		pt := env.this.Typ.Underlying().(*types.Pointer).Elem()
		if st, ok := pt.Underlying().(*types.Struct); ok {
			for i := 0; i < st.NumFields(); i++ {
				if st.Field(i).Name() == name {
					return u.selectField(env, env.this, name, nil)
				}
			}
		}
		// ghost fields of this
		if fd, ok := u.eng.cs.Fields[structRootName(pt)+"."+name]; ok && fd.Class == "ghost" {
			return u.selectField(env, env.this, name, nil)
		}
	}
	if ce, ok := u.eng.cs.Consts[name]; ok {
		return u.eval(&Env{u: u, st: env.st, old: env.old, vars: map[string]Val{}, depth: env.depth}, ce)
	}
	if obj := u.eng.tpkg.Scope().Lookup(name); obj != nil {
		switch o := obj.(type) {
		case *types.Const:
			return u.constOf(o.Val(), o.Type())
		case *types.Var:
			return &Scalar{T: u.sentinel(name), Typ: o.Type(), Origin: "global:" + name}
		}
	}
	u.note("unresolved identifier %q in contract of %s", name, u.rootKey)
	return &Scalar{T: u.fresh(SInt, "unresolved_"+name), Typ: types.Typ[types.Int]}
}

func (u *Unit) constOf(v constant.Value, t types.Type) Val {
	switch v.Kind() {
	case constant.Bool:
		return &Scalar{T: BoolLit(constant.BoolVal(v)), Typ: t}
	case constant.String:
		return &Scalar{T: u.eng.strID(constant.StringVal(v)), Typ: t}
	case constant.Int:
		if sortOf(t) == SReal {
			return &Scalar{T: realLit(v), Typ: t}
		}
		return &Scalar{T: BigLit(v.ExactString()), Typ: t}
	case constant.Float:
		return &Scalar{T: realLit(v), Typ: t}
	}
	return &Scalar{T: TZero, Typ: t}
}

func (u *Unit) qualified(pkg, name string) (Val, bool) {
	for _, imp := range u.eng.tpkg.Imports() {
		if imp.Name() == pkg {
			if obj := imp.Scope().Lookup(name); obj != nil {
				switch o := obj.(type) {
				case *types.Const:
					return u.constOf(o.Val(), o.Type()), true
				case *types.Var:
					return &Scalar{T: u.sentinel(pkg + "." + name), Typ: o.Type(), Origin: "global:" + pkg + "." + name}, true
				}
			}
		}
	}
	return nil, false
}

func (u *Unit) resolveType(name string) types.Type {
	ptr := 0
	for strings.HasPrefix(name, "*") {
		ptr++
		name = name[1:]
	}
	var t types.Type
	if i := strings.Index(name, "."); i >= 0 {
		for _, imp := range u.eng.tpkg.Imports() {
			if imp.Name() == name[:i] {
				if obj := imp.Scope().Lookup(name[i+1:]); obj != nil {
					t = obj.Type()
				}
			}
		}
	} else if obj := u.eng.tpkg.Scope().Lookup(name); obj != nil {
		t = obj.Type()
	} else if obj := types.Universe.Lookup(name); obj != nil {
		t = obj.Type()
	}
	if t == nil {
		return nil
	}
	for ; ptr > 0; ptr-- {
		t = types.NewPointer(t)
	}
	return t
}

// selectField: x.name on structured values, event records, pointers.
// renamedField: a contract expression that selects a field the struct no longer has follows a rename when the
// struct leaves no choice (it has one field only), or when the engine paired the stale declaration with a new field.
func (u *Unit) renamedField(t types.Type, name string) string {
	if t == nil {
		return name
	}
	if pt, ok := t.Underlying().(*types.Pointer); ok {
		t = pt.Elem()
	}
	st, ok := t.Underlying().(*types.Struct)
	if !ok {
		return name
	}
	for i := 0; i < st.NumFields(); i++ {
		if st.Field(i).Name() == name {
			return name
		}
	}
	if fd, ok := u.eng.cs.Fields[structRootName(t)+"."+name]; ok && fd.Class == "ghost" {
		return name
	}
	if nn, ok := u.eng.fieldRenames[structRootName(t)+"."+name]; ok {
		return nn
	}
	if st.NumFields() == 1 {
		u.eng.noteFieldRename(structRootName(t)+"."+name, st.Field(0).Name())
		return st.Field(0).Name()
	}
	// otherwise the field whose name shares by far the longest stretch with the vanished one (disconnectHandler ->
	// onDisconnect), if there is exactly one such field and no declaration of the contract file claims it
	best, second, bestName := 0, 0, ""
	for i := 0; i < st.NumFields(); i++ {
		fn := st.Field(i).Name()
		if _, declared := u.eng.cs.Fields[structRootName(t)+"."+fn]; declared {
			if _, inferred := u.eng.inferred[structRootName(t)+"."+fn]; !inferred {
				continue
			}
		}
		n := commonStretch(strings.ToLower(name), strings.ToLower(fn))
		if n > best {
			best, second, bestName = n, best, fn
		} else if n > second {
			second = n
		}
	}
	if best >= 6 && best >= second+2 {
		u.eng.noteFieldRename(structRootName(t)+"."+name, bestName)
		return bestName
	}
	return name
}

// commonStretch: length of the longest common substring.
func commonStretch(a, b string) int {
	best := 0
	for i := range a {
		for j := range b {
			k := 0
			for i+k < len(a) && j+k < len(b) && a[i+k] == b[j+k] {
				k++
			}
			if k > best {
				best = k
			}
		}
	}
	return best
}

func (u *Unit) selectField(env *Env, x Val, name string, e *Expr) Val {
	switch v := x.(type) {
	case *StructV:
		name = u.renamedField(v.Typ, name)
	case *PtrV:
		if v.Cell == nil {
			name = u.renamedField(v.Elem, name)
		}
	case *Scalar:
		name = u.renamedField(v.Typ, name)
	}
	switch v := x.(type) {
	case *EventV:
		if f, ok := v.F[name]; ok && f != nil {
			return f
		}
		u.note("event has no binding %q (contract of %s)", name, u.rootKey)
		return &Scalar{T: u.fresh(SInt, "nobind_"+name), Typ: types.Typ[types.Int]}
	case *StructV:
		if st, ok := v.Typ.Underlying().(*types.Struct); ok {
			for i := 0; i < st.NumFields(); i++ {
				if st.Field(i).Name() == name {
					return v.F[i]
				}
			}
		}
	case *PtrV:
		if v.Cell != nil {
			return u.selectField(env, u.loadCell(env.st, v.Cell, v.Path, v.Elem), name, e)
		}
		lt := typeAt(v.Elem, []string{name}, u.eng)
		if lt == nil {
			break
		}
		path := append(append([]string{}, v.Path...), name)
		return u.rawHeap(env.st, v.Root, path, v.Base, lt)
	case *Scalar:
		if v.Typ == nil {
			break
		}
		if pt, ok := v.Typ.Underlying().(*types.Pointer); ok {
			root := structRootName(pt.Elem())
			if fd, ok := u.eng.cs.Fields[root+"."+name]; ok && fd.Class == "ghost" {
				arr := u.heapArr(env.st, root+"."+name, fd.Sort)
				return &Scalar{T: SelectA(arr, v.T), Typ: types.Typ[types.Int]}
			}
			lt := typeAt(pt.Elem(), []string{name}, u.eng)
			if lt == nil {
				break
			}
			return u.rawHeap(env.st, root, []string{name}, v.T, lt)
		}
	}
	u.note("cannot select .%s on %T (contract of %s)", name, x, u.rootKey)
	return &Scalar{T: u.fresh(SInt, "nosel_"+name), Typ: types.Typ[types.Int]}
}

func (u *Unit) evalBin(env *Env, e *Expr) Val {
	op := e.Name
	if op == "&&" || op == "||" || op == "==>" || op == "<==>" {
		a, b := u.evalBool(env, e.Args[0]), u.evalBool(env, e.Args[1])
		var r Term
		switch op {
		case "&&":
			r = And(a, b)
		case "||":
			r = Or(a, b)
		case "==>":
			r = Implies(a, b)
		default:
			r = Eq(a, b)
		}
		return &Scalar{T: r, Typ: types.Typ[types.Bool]}
	}
	av, bv := u.eval(env, e.Args[0]), u.eval(env, e.Args[1])
	if op == "==" || op == "!=" {
		r := u.valEq(av, bv)
		if op == "!=" {
			r = Not(r)
		}
		return &Scalar{T: r, Typ: types.Typ[types.Bool]}
	}
	a, b := u.termOf(av), u.termOf(bv)
	switch op {
	case "<", "<=", ">", ">=":
		return &Scalar{T: Cmp(op, a, b), Typ: types.Typ[types.Bool]}
	case "+", "-", "*":
		return &Scalar{T: Arith(op, a, b), Typ: scalarTyp(av)}
	case "/":
		if a.Sort == SReal || b.Sort == SReal {
			return &Scalar{T: Arith("/", ToReal(a), ToReal(b)), Typ: types.Typ[types.Float64]}
		}
		// truncated division, as in Go
		return &Scalar{T: Term{fmt.Sprintf("(ite (>= %s 0) (div %s %s) (- (div (- %s) %s)))", a.S, a.S, b.S, a.S, b.S), SInt}, Typ: scalarTyp(av)}
	case "%":
		return &Scalar{T: App(SInt, "mod", a, b), Typ: scalarTyp(av)}
	}
	u.note("unknown operator %s", op)
	return &Scalar{T: TTrue, Typ: types.Typ[types.Bool]}
}

func (u *Unit) evalCall(env *Env, e *Expr) Val {
	fn := e.Args[0]
	args := e.Args[1:]
	name := fn.String()
	argName := func(i int) string {
		if i < len(args) {
			return strings.Trim(args[i].String(), "()")
		}
		return ""
	}
	switch name {
	case "old":
		oe := *env
		if env.old != nil {
			oe.st = env.old
		}
		return u.eval(&oe, args[0])
	case "calls", "scalls", "spawns":
		key := name + ":" + argName(0)
		if t, ok := env.st.ghost[key]; ok {
			return &Scalar{T: t, Typ: types.Typ[types.Int]}
		}
		return &Scalar{T: TZero, Typ: types.Typ[types.Int]}
	case "held":
		// held(e.mu): 0 none, 1 read, 2 write
		a := args[0]
		if a.Op == "sel" {
			base := u.eval(env, a.Args[0])
			if s, ok := base.(*Scalar); ok && s.Typ != nil {
				if pt, ok := s.Typ.Underlying().(*types.Pointer); ok {
					return &Scalar{T: u.heldTerm(env.st, structRootName(pt.Elem())+"."+a.Name, s.T), Typ: types.Typ[types.Int]}
				}
			}
		}
		u.note("held() needs obj.lock")
		return &Scalar{T: TZero, Typ: types.Typ[types.Int]}
	case "nheld":
		return &Scalar{T: u.nheld(env.st, argName(0)), Typ: types.Typ[types.Int]}
	case "wgadd":
		if t, ok := env.st.ghost["wgadd"]; ok {
			return &Scalar{T: t, Typ: types.Typ[types.Int]}
		}
		return &Scalar{T: TZero, Typ: types.Typ[types.Int]}
	case "istype":
		x := u.evalTerm(env, args[0])
		tid := u.eng.typeIDName(argName(1))
		return &Scalar{T: And(Not(Eq(x, TZero)), Eq(App(SInt, "typeof", x), tid)), Typ: types.Typ[types.Bool]}
	case "cancelled":
		c := u.evalTerm(env, args[0])
		return &Scalar{T: SelectA(u.cancelledArr(env.st), c), Typ: types.Typ[types.Bool]}
	case "ite":
		c := u.evalBool(env, args[0])
		return u.mergeVals(c, u.eval(env, args[1]), u.eval(env, args[2]))
	case "max":
		a, b := u.evalTerm(env, args[0]), u.evalTerm(env, args[1])
		return &Scalar{T: Ite(Cmp(">=", a, b), a, b), Typ: types.Typ[types.Int]}
	case "min":
		a, b := u.evalTerm(env, args[0]), u.evalTerm(env, args[1])
		return &Scalar{T: Ite(Cmp("<=", a, b), a, b), Typ: types.Typ[types.Int]}
	case "real":
		return &Scalar{T: ToReal(u.evalTerm(env, args[0])), Typ: types.Typ[types.Float64]}
	case "newInThisIteration":
		// newInThisIteration(x): x (or the pointer an interface value x holds) was allocated by this activation after
		// the innermost enclosing loop was cut, i.e. in the current iteration: not a value carried over from an
		// earlier one
		v := u.eval(env, args[0])
		if sc, ok := v.(*Scalar); ok {
			if inner, ok := sc.Aux.(*Scalar); ok {
				sc = inner
			}
			if as := allocsOf(sc); as != nil && len(u.allocMarks) > 0 {
				// nil, or one of the allocations made since the loop was cut
				mark := u.allocMarks[len(u.allocMarks)-1]
				all := true
				for _, k := range as.ks {
					all = all && k > mark
				}
				if all {
					return &Scalar{T: TTrue, Typ: types.Typ[types.Bool]}
				}
			}
		}
		return &Scalar{T: TFalse, Typ: types.Typ[types.Bool]}
	case "keysWithin":
		// keysWithin(m, "a", "b", ...): m is a map made by this activation whose keys are all constants from the list
		v := u.eval(env, args[0])
		if sc, ok := v.(*Scalar); ok && sc.Keys != nil && sc.Keys.known {
			allowed := map[string]bool{}
			for _, a := range args[1:] {
				allowed[a.Name] = true
			}
			all := true
			for k := range sc.Keys.ks {
				all = all && allowed[k]
			}
			return &Scalar{T: BoolLit(all), Typ: types.Typ[types.Bool]}
		}
		return &Scalar{T: TFalse, Typ: types.Typ[types.Bool]}
	case "eachDuration":
		// eachDuration(opts, d): every time.Duration among the (statically known) elements of the option list equals d;
		// false when the elements are not known
		lst := u.eval(env, args[0])
		d := u.evalTerm(env, args[1])
		elems, guards, ok := u.knownElems(env.st, lst)
		if !ok {
			return &Scalar{T: TFalse, Typ: types.Typ[types.Bool]}
		}
		durID := u.eng.typeIDName("time.Duration")
		cs := []Term{TTrue}
		for i, el := range elems {
			t := u.termOf(el)
			cs = append(cs, Implies(And(guards[i], Eq(App(SInt, "typeof", t), durID)), Eq(App(SInt, "pay", t), d)))
		}
		return &Scalar{T: And(cs...), Typ: types.Typ[types.Bool]}
	case "Includes":
		// Includes(whole, part): see includesTerm
		if args[1].Op == "str" {
			u.strLit(args[1].Name)
		}
		return &Scalar{T: u.includesTerm(u.evalTerm(env, args[0]), u.evalTerm(env, args[1])), Typ: types.Typ[types.Bool]}
	case "KeepsText":
		// KeepsText(x): x is a wrapper whose message includes the message of what it wraps — fmt's %w wrapper, or one
		// of the library's own error types whose Error method is proved to (clause message_includes_cause). The
		// inclusion is assumed here for this x.
		x := u.evalTerm(env, args[0])
		inner := App(SInt, "Unwrap", x)
		var kinds []Term
		for _, tn := range u.eng.textKeepingWrappers() {
			kinds = append(kinds, Eq(App(SInt, "typeof", x), u.eng.typeIDName(tn)))
		}
		keeper := And(Not(Eq(x, TZero)), Not(Eq(inner, TZero)), Or(kinds...))
		u.assume(TTrue, Implies(keeper, u.includesTerm(App(SInt, "ErrMsg", x), App(SInt, "ErrMsg", inner))))
		return &Scalar{T: keeper, Typ: types.Typ[types.Bool]}
	case "NatsConflict":
		return &Scalar{T: u.catalogueMember(u.evalTerm(env, args[0]), "conflict"), Typ: types.Typ[types.Bool]}
	case "NatsTransient":
		return &Scalar{T: u.catalogueMember(u.evalTerm(env, args[0]), "transient"), Typ: types.Typ[types.Bool]}
	case "has":
		base := u.eval(env, args[0])
		k := u.evalTerm(env, args[1])
		if mv, ok := base.(*MapV); ok {
			_, h := u.mapLookup(env.st, mv, k)
			return &Scalar{T: h, Typ: types.Typ[types.Bool]}
		}
		return &Scalar{T: TFalse, Typ: types.Typ[types.Bool]}
	case "inonce":
		return &Scalar{T: BoolLit(u.onceDepth > 0), Typ: types.Typ[types.Bool]}
	case "inspawn":
		return &Scalar{T: BoolLit(u.spawnDepth > 0), Typ: types.Typ[types.Bool]}
	case "isnil":
		return &Scalar{T: Eq(u.evalTerm(env, args[0]), TZero), Typ: types.Typ[types.Bool]}
	case "origin":
		// origin(x, "uuid"): provenance check resolved by the engine
		v := u.eval(env, args[0])
		want := args[1].Name
		if s, ok := v.(*Scalar); ok {
			return &Scalar{T: BoolLit(strings.HasPrefix(s.Origin, want)), Typ: types.Typ[types.Bool]}
		}
		return &Scalar{T: TFalse, Typ: types.Typ[types.Bool]}
	case "isfunc":
		// isfunc(x, "T.method"): x is (a bound-method value of) that package function
		v := u.eval(env, args[0])
		want := args[1].Name
		if c, ok := v.(*ClosureV); ok {
			fn := c.Fn.(*ssa.Function)
			if strings.Contains(fn.Name(), "$bound") {
				if t := u.boundTarget(fn); t != nil {
					fn = t
				}
			}
			if u.eng.funcKey(fn) != want {
				// a literal that does nothing but pass its own parameters on to that function
				if t := forwardsTo(fn); t != nil {
					fn = t
				}
			}
			return &Scalar{T: BoolLit(u.eng.funcKey(fn) == want), Typ: types.Typ[types.Bool]}
		}
		return &Scalar{T: TFalse, Typ: types.Typ[types.Bool]}
	case "ctxof":
		v := u.eval(env, args[0])
		if s, ok := v.(*Scalar); ok && s.Aux != nil {
			return s.Aux
		}
		return &Scalar{T: TZero, Typ: types.Typ[types.Int]}
	}
	if sp, ok := u.eng.cs.Specs[name]; ok {
		sub := &Env{u: u, fr: env.fr, st: env.st, old: env.old, vars: map[string]Val{}, this: env.this, callee: true, depth: env.depth}
		for i, p := range sp.Params {
			if i < len(args) {
				sub.vars[p] = u.eval(env, args[i])
			}
		}
		return u.eval(sub, sp.Body)
	}
	if uf, ok := u.eng.cs.UFuns[name]; ok {
		var ts []Term
		for i, a := range args {
			t := u.evalTerm(env, a)
			if i < len(uf.Args) && uf.Args[i] == SReal {
				t = ToReal(t)
			}
			ts = append(ts, t)
		}
		typ := types.Type(types.Typ[types.Int])
		if uf.Ret == SBool {
			typ = types.Typ[types.Bool]
		} else if uf.Ret == SReal {
			typ = types.Typ[types.Float64]
		}
		return &Scalar{T: App(uf.Ret, name, ts...), Typ: typ}
	}
	if bf, ok := builtinUFuns[name]; ok {
		var ts []Term
		for _, a := range args {
			ts = append(ts, u.evalTerm(env, a))
		}
		typ := types.Type(types.Typ[types.Int])
		if bf.Ret == SBool {
			typ = types.Typ[types.Bool]
		} else if bf.Ret == SReal {
			typ = types.Typ[types.Float64]
		}
		return &Scalar{T: App(bf.Ret, name, ts...), Typ: typ}
	}
	u.note("unknown function %s in contract of %s", name, u.rootKey)
	return &Scalar{T: TTrue, Typ: types.Typ[types.Bool]}
}

// builtinUFuns are the uninterpreted symbols the engine itself uses.
var builtinUFuns = map[string]*UFun{
	"mk":           {"mk", []Sort{SInt, SInt}, SInt},
	"typeof":       {"typeof", []Sort{SInt}, SInt},
	"pay":          {"pay", []Sort{SInt}, SInt},
	"real_id":      {"real_id", []Sort{SReal}, SInt},
	"id_real":      {"id_real", []Sort{SInt}, SReal},
	"ErrIs":        {"ErrIs", []Sort{SInt, SInt}, SBool},
	"ErrAs":        {"ErrAs", []Sort{SInt, SInt}, SBool},
	"ErrAsVal":     {"ErrAsVal", []Sort{SInt, SInt}, SInt},
	"ErrMsg":       {"ErrMsg", []Sort{SInt}, SInt},
	"Unwrap":       {"Unwrap", []Sort{SInt}, SInt},
	"IsCtxErr":     {"IsCtxErr", []Sort{SInt}, SBool},
	"StrLower":     {"StrLower", []Sort{SInt}, SInt},
	"StrContains":  {"StrContains", []Sort{SInt, SInt}, SBool},
	"LenOf":        {"LenOf", []Sort{SInt}, SInt},
	"CapOf":        {"CapOf", []Sort{SInt}, SInt},
	"mapget":       {"mapget", []Sort{SInt, SInt}, SInt},
	"maphas":       {"maphas", []Sort{SInt, SInt}, SBool},
	"Marshal":      {"Marshal", []Sort{SInt, SInt, SInt}, SInt},
	"IDOf":         {"IDOf", []Sort{SInt}, SInt},
	"TokenOf":      {"TokenOf", []Sort{SInt}, SInt},
	"PrioOf":       {"PrioOf", []Sort{SInt}, SInt},
	"ParseOK":      {"ParseOK", []Sort{SInt}, SBool},
	"IDPresent":    {"IDPresent", []Sort{SInt}, SBool},
	"TokenPresent": {"TokenPresent", []Sort{SInt}, SBool},
	"PrioPresent":  {"PrioPresent", []Sort{SInt}, SBool},
	"ParseMap":     {"ParseMap", []Sort{SInt}, SInt},
	"ParseMapOK":   {"ParseMapOK", []Sort{SInt}, SBool},
	"FreshTok":     {"FreshTok", []Sort{SInt}, SBool},
	"CtxParent":    {"CtxParent", []Sort{SInt}, SInt},
	"CancelTarget": {"CancelTarget", []Sort{SInt}, SInt},
	"CtxTimeout":   {"CtxTimeout", []Sort{SInt}, SInt},
	"DoneCh":       {"DoneCh", []Sort{SInt}, SInt},
	"Pow":          {"Pow", []Sort{SReal, SReal}, SReal},
}

// forwardsTo: fn is a function literal whose whole body is one call of a package function with exactly its own
// parameters, in order, as the (non-receiver) arguments, followed by a return of nothing or of that call's results.
func forwardsTo(fn *ssa.Function) *ssa.Function {
	if fn.Parent() == nil || len(fn.Blocks) != 1 {
		return nil
	}
	var call *ssa.Call
	for _, in := range fn.Blocks[0].Instrs {
		switch x := in.(type) {
		case *ssa.DebugRef, *ssa.Return:
		case *ssa.UnOp:
			// load of a captured receiver
		case *ssa.Call:
			if call != nil {
				return nil
			}
			call = x
		default:
			return nil
		}
	}
	if call == nil {
		return nil
	}
	tgt := call.Call.StaticCallee()
	if tgt == nil {
		return nil
	}
	args := call.Call.Args
	if tgt.Signature.Recv() != nil && len(args) > 0 {
		args = args[1:]
	}
	if len(args) != len(fn.Params) {
		return nil
	}
	for i, a := range args {
		if a != ssa.Value(fn.Params[i]) {
			return nil
		}
	}
	return tgt
}
