package main

import (
	"bytes"
	"context"
	"encoding/json"
	"fmt"
	"go/types"
	"os"
	"os/exec"
	"path/filepath"
	"regexp"
	"strings"
	"time"
)

// ReplayResult records the attempt to reproduce a counterexample on the real code.
type ReplayResult struct {
	Template  string            `json:"template"`
	TestFile  string            `json:"test_file,omitempty"`
	TestName  string            `json:"test_name,omitempty"`
	Cmd       string            `json:"cmd,omitempty"`
	Values    map[string]string `json:"values,omitempty"`
	Output    string            `json:"output,omitempty"`
	Confirmed bool              `json:"confirmed"`
	Note      string            `json:"note,omitempty"`
}

// runOverlayTest runs one in-package test of /repo/leader injected through
// `go test -overlay` (nothing is written into the repository).
func runOverlayTest(repo, testFile, testName string, race bool, timeout time.Duration) (string, bool, error) {
	tmp, err := os.MkdirTemp("", "govc-replay-")
	if err != nil {
		return "", false, err
	}
	defer os.RemoveAll(tmp)
	ov := map[string]map[string]string{"Replace": {filepath.Join(repo, "leader", filepath.Base(testFile)): testFile}}
	b, _ := json.Marshal(ov)
	ovPath := filepath.Join(tmp, "ov.json")
	if err := os.WriteFile(ovPath, b, 0o644); err != nil {
		return "", false, err
	}
	args := []string{"test", "-overlay", ovPath, "-vet=off", "-count=1", "-timeout", fmt.Sprintf("%ds", int(timeout.Seconds())), "-run", "^" + testName + "$", "-v"}
	if race {
		args = append(args, "-race")
	}
	args = append(args, ".")
	ctx, cancel := context.WithTimeout(context.Background(), timeout+60*time.Second)
	defer cancel()
	cmd := exec.CommandContext(ctx, "go", args...)
	cmd.Dir = filepath.Join(repo, "leader")
	// the repository needs its own (auto-switched) toolchain: do not force the local one here
	env := []string{}
	for _, kv := range os.Environ() {
		if strings.HasPrefix(kv, "GOTOOLCHAIN=") || strings.HasPrefix(kv, "GOFLAGS=") || strings.HasPrefix(kv, "GOSUMDB=") || strings.HasPrefix(kv, "PATH=") {
			continue
		}
		env = append(env, kv)
	}
	path := os.Getenv("PATH")
	path = strings.ReplaceAll(path, "/opt/veriftools/go1.26.8/bin:", "")
	env = append(env, "GOFLAGS=-mod=mod", "GOPROXY=off", "PATH="+path)
	cmd.Env = env
	var out bytes.Buffer
	cmd.Stdout = &out
	cmd.Stderr = &out
	runErr := cmd.Run()
	s := out.String()
	failed := runErr != nil && (strings.Contains(s, "--- FAIL") || strings.Contains(s, "panic:") || strings.Contains(s, "DATA RACE") || strings.Contains(s, "fatal error"))
	if runErr != nil && !failed {
		return s, false, fmt.Errorf("go test did not run the replay: %v", runErr)
	}
	return s, failed, nil
}

var knownRE = regexp.MustCompile(`^(.*)::(Test\w+)$`)

// cmdReplay: ./check --replay <path>
//
//	<file>::<TestName>   run a known-finding replay test; exit 1 if the defect reproduces
//	<record>.json        show a recorded violation and re-run its generated test, if any
func cmdReplay(repo, path string) int {
	if m := knownRE.FindStringSubmatch(path); m != nil {
		file := m[1]
		if !filepath.IsAbs(file) {
			file = filepath.Join(verifDir, file)
		}
		out, failed, err := runOverlayTest(repo, file, m[2], strings.Contains(m[2], "_Race_"), 120*time.Second)
		fmt.Print(out)
		if err != nil {
			fmt.Fprintln(os.Stderr, "ENGINE-ERROR:", err)
			return 2
		}
		if failed {
			fmt.Println("REPLAY: the violation reproduces on the current tree")
			return 1
		}
		fmt.Println("REPLAY: the violation does not reproduce on the current tree")
		return 0
	}
	b, err := os.ReadFile(path)
	if err != nil {
		fmt.Fprintln(os.Stderr, "ENGINE-ERROR:", err)
		return 2
	}
	var rec map[string]interface{}
	if err := json.Unmarshal(b, &rec); err != nil {
		fmt.Fprintln(os.Stderr, "ENGINE-ERROR: not a replay record:", err)
		return 2
	}
	fmt.Printf("property:   %v\nobligation: %v\nclause:     %v\nwhere:      %v\nverdict:    %v (%v)\n", rec["property"], rec["obligation"], rec["clause"], rec["where"], rec["verdict"], rec["backend"])
	if d, ok := rec["detail"].(string); ok && d != "" {
		fmt.Println("detail:    ", d)
	}
	if rp, ok := rec["replay"].(map[string]interface{}); ok {
		tf, _ := rp["test_file"].(string)
		tn, _ := rp["test_name"].(string)
		if tf != "" && tn != "" {
			out, failed, err := runOverlayTest(repo, tf, tn, false, 120*time.Second)
			fmt.Print(out)
			if err != nil {
				fmt.Fprintln(os.Stderr, "ENGINE-ERROR:", err)
				return 2
			}
			if failed {
				fmt.Println("REPLAY: the counterexample reproduces on the current tree")
				return 1
			}
			fmt.Println("REPLAY: the counterexample does not reproduce on the current tree")
			return 0
		}
	}
	if so, ok := rec["solver_output"].(string); ok {
		fmt.Println("solver output (no executable replay for this obligation family):")
		if len(so) > 3000 {
			so = so[:3000] + "\n..."
		}
		fmt.Println(so)
	}
	return 1
}

// modelValues asks the solver for the values of the given terms in the
// counterexample of one obligation part.
func modelValues(u *Unit, part oblPart, terms map[string]Term, workDir, name string) map[string]string {
	if len(terms) == 0 {
		return nil
	}
	q := u.query(part, true)
	q = strings.Replace(q, "(get-model)\n", "", 1)
	var names []string
	var b strings.Builder
	b.WriteString("(get-value (")
	for _, k := range sortedKeys(terms) {
		names = append(names, k)
		b.WriteString(terms[k].S + " ")
	}
	b.WriteString("))\n")
	file := filepath.Join(workDir, name+".values.smt2")
	_ = os.WriteFile(file, []byte(q+b.String()), 0o644)
	for _, sp := range solvers[:2] {
		_, out, _ := runSolver(sp, file, 20, 0)
		if !strings.HasPrefix(strings.TrimSpace(out), "sat") {
			continue
		}
		body := out[strings.Index(out, "sat")+3:]
		vals := parseGetValue(body)
		if len(vals) != len(names) {
			continue
		}
		res := map[string]string{}
		for i, n := range names {
			res[n] = vals[i]
		}
		return res
	}
	return nil
}

// parseGetValue extracts the value part of each (term value) pair.
func parseGetValue(s string) []string {
	s = strings.TrimSpace(s)
	if !strings.HasPrefix(s, "(") {
		return nil
	}
	// split top-level pairs
	var pairs []string
	depth, start := 0, -1
	for i, c := range s {
		switch c {
		case '(':
			depth++
			if depth == 2 {
				start = i
			}
		case ')':
			if depth == 2 && start >= 0 {
				pairs = append(pairs, s[start:i+1])
				start = -1
			}
			depth--
		}
	}
	var out []string
	for _, p := range pairs {
		p = strings.TrimSpace(p[1 : len(p)-1])
		// the value is the last top-level s-expression
		d := 0
		cut := -1
		for i := len(p) - 1; i >= 0; i-- {
			c := p[i]
			if c == ')' {
				d++
			}
			if c == '(' {
				d--
			}
			if d == 0 && (c == ' ' || c == '\n') {
				cut = i
				break
			}
			if d == 0 && c == '(' {
				cut = i - 1
				break
			}
		}
		v := strings.TrimSpace(p[cut+1:])
		v = strings.ReplaceAll(strings.ReplaceAll(strings.ReplaceAll(v, "(- ", "-"), ")", ""), " ", "")
		out = append(out, v)
	}
	return out
}

// tryReplay builds and runs an executable replay for the obligation
// families that have a template.
func tryReplay(rd *runData, ob *Obligation, prop, dir, name string) *ReplayResult {
	if ob.Unit == nil || ob.Result == nil || ob.Result.Verdict != "sat" {
		return nil
	}
	u := ob.Unit
	part := ob.Parts[ob.Result.Part]
	switch {
	case (u.rootKey == "validateConfig" || u.rootKey == "newKVElection" || u.rootKey == "NewElection") && strings.HasPrefix(ob.Family, "C16."):
		return replayConfig(rd, u, ob, part, dir, name)
	case u.rootKey == "CalculateBackoff" && strings.HasPrefix(ob.Family, "C17."):
		return replayBackoff(rd, u, ob, part, dir, name)
	case (u.rootKey == "IsPermanentError" || u.rootKey == "IsTransientError") && strings.HasPrefix(ob.Family, "C15."):
		return replayClassifier(rd, u, ob, part, dir, name)
	}
	return nil
}

func leafTerms(prefix string, v Val, typ interface{}, out map[string]Term) {
	switch x := v.(type) {
	case *Scalar:
		out[prefix] = x.T
	case *StructV:
		st := structFieldNames(x)
		for i, f := range x.F {
			n := fmt.Sprint(i)
			if i < len(st) {
				n = st[i]
			}
			leafTerms(prefix+"."+n, f, nil, out)
		}
	}
}

func structFieldNames(s *StructV) []string {
	var names []string
	if st, ok := s.Typ.Underlying().(*types.Struct); ok {
		for i := 0; i < st.NumFields(); i++ {
			names = append(names, st.Field(i).Name())
		}
	}
	return names
}

const configReplayTmpl = `package leader

import (
	"testing"
	"time"
)

type govcRecordingProvider struct{ contacted bool }

func (p *govcRecordingProvider) JetStream() (JetStreamContext, error) {
	p.contacted = true
	return nil, ErrConnectionLost
}

// Generated by govc from the solver's counterexample to %s.
func TestGovcReplay_Config(t *testing.T) {
	cfg := ElectionConfig{
		Bucket: %q, Group: %q, InstanceID: %q,
		TTL: time.Duration(%s), HeartbeatInterval: time.Duration(%s),
		ValidationInterval: time.Duration(%s), DisconnectGracePeriod: time.Duration(%s),
		MaxConsecutiveFailures: %s, Priority: %s, AllowPriorityTakeover: %s,
	}
	valid := cfg.Bucket != "" && cfg.Group != "" && cfg.InstanceID != "" &&
		cfg.TTL > 0 && cfg.HeartbeatInterval > 0 && cfg.TTL >= 3*cfg.HeartbeatInterval &&
		(cfg.ValidationInterval == 0 || cfg.ValidationInterval >= cfg.HeartbeatInterval) &&
		(cfg.DisconnectGracePeriod == 0 || cfg.DisconnectGracePeriod >= 2*cfg.HeartbeatInterval) &&
		cfg.MaxConsecutiveFailures >= 0 && (!cfg.AllowPriorityTakeover || cfg.Priority > 0)
	err := validateConfig(cfg)
	if (err == nil) != valid {
		t.Fatalf("VIOLATION-REPRODUCED: documented predicate says valid=%%v but validateConfig returned %%v for %%+v", valid, err, cfg)
	}
	if err != nil {
		ve, ok := err.(*ValidationError)
		if !ok {
			t.Fatalf("VIOLATION-REPRODUCED: error is not a *ValidationError: %%T", err)
		}
		offends := map[string]bool{
			"Bucket": cfg.Bucket == "", "Group": cfg.Group == "", "InstanceID": cfg.InstanceID == "",
			"TTL": cfg.TTL <= 0 || (cfg.HeartbeatInterval > 0 && cfg.TTL < 3*cfg.HeartbeatInterval),
			"HeartbeatInterval": cfg.HeartbeatInterval <= 0,
			"ValidationInterval": cfg.ValidationInterval != 0 && cfg.ValidationInterval < cfg.HeartbeatInterval,
			"DisconnectGracePeriod": cfg.DisconnectGracePeriod != 0 && cfg.DisconnectGracePeriod < 2*cfg.HeartbeatInterval,
			"MaxConsecutiveFailures": cfg.MaxConsecutiveFailures < 0,
			"Priority": cfg.AllowPriorityTakeover && cfg.Priority <= 0,
		}
		if !offends[ve.Field] {
			t.Fatalf("VIOLATION-REPRODUCED: error names field %%q, which does not offend, for %%+v", ve.Field, cfg)
		}
	}
	p := &govcRecordingProvider{}
	_, nerr := NewElection(p, cfg)
	if !valid && nerr == nil {
		t.Fatalf("VIOLATION-REPRODUCED: NewElection accepted an invalid configuration %%+v", cfg)
	}
	if !valid && p.contacted {
		t.Fatalf("VIOLATION-REPRODUCED: NewElection contacted the store before rejecting %%+v", cfg)
	}
}
`

func replayConfig(rd *runData, u *Unit, ob *Obligation, part oblPart, dir, name string) *ReplayResult {
	cfg, ok := u.entryParams["cfg"].(*StructV)
	if !ok {
		return nil
	}
	terms := map[string]Term{}
	leafTerms("cfg", cfg, nil, terms)
	vals := modelValues(u, part, terms, dir, name)
	if vals == nil {
		return &ReplayResult{Template: "config", Note: "could not read the model values"}
	}
	str := func(k string) string {
		if vals[k] == "0" {
			return ""
		}
		return "x" + vals[k]
	}
	num := func(k string) string {
		if v, ok := vals[k]; ok && v != "" {
			return v
		}
		return "0"
	}
	src := fmt.Sprintf(configReplayTmpl, ob.Name, str("cfg.Bucket"), str("cfg.Group"), str("cfg.InstanceID"),
		num("cfg.TTL"), num("cfg.HeartbeatInterval"), num("cfg.ValidationInterval"), num("cfg.DisconnectGracePeriod"),
		num("cfg.MaxConsecutiveFailures"), num("cfg.Priority"), num("cfg.AllowPriorityTakeover"))
	file := filepath.Join(dir, name+"_replay_test.go")
	_ = os.WriteFile(file, []byte(src), 0o644)
	out, failed, err := runOverlayTest(rd.eng.repo, file, "TestGovcReplay_Config", false, 90*time.Second)
	rr := &ReplayResult{Template: "config", TestFile: file, TestName: "TestGovcReplay_Config", Values: vals, Output: tail(out, 3000), Confirmed: failed && strings.Contains(out, "VIOLATION-REPRODUCED"),
		Cmd: "./check --replay " + filepath.Join(dir, name+".json")}
	if err != nil {
		rr.Note = err.Error()
	}
	return rr
}

const backoffReplayTmpl = `package leader

import (
	"math"
	"testing"
	"time"
)

// Generated by govc from the solver's counterexample to %s.
func TestGovcReplay_Backoff(t *testing.T) {
	cfg := BackoffConfig{InitialBackoff: time.Duration(%s), MaxBackoff: time.Duration(%s), BackoffMultiplier: %s, Jitter: %s}
	attempt := %s
	base := math.Min(float64(cfg.MaxBackoff), float64(cfg.InitialBackoff)*math.Pow(cfg.BackoffMultiplier, float64(attempt)))
	for i := 0; i < 20000; i++ {
		d := float64(CalculateBackoff(cfg, attempt))
		if d < 0 || d > base*(1+cfg.Jitter)+1 || d < base*(1-cfg.Jitter)-1 {
			t.Fatalf("VIOLATION-REPRODUCED: CalculateBackoff(%%+v, %%d) = %%v outside [%%v, %%v]", cfg, attempt, time.Duration(d), base*(1-cfg.Jitter), base*(1+cfg.Jitter))
		}
	}
}
`

func replayBackoff(rd *runData, u *Unit, ob *Obligation, part oblPart, dir, name string) *ReplayResult {
	terms := map[string]Term{}
	if c, ok := u.entryParams["cfg"].(*StructV); ok {
		leafTerms("cfg", c, nil, terms)
	}
	if a, ok := u.entryParams["attempt"].(*Scalar); ok {
		terms["attempt"] = a.T
	}
	vals := modelValues(u, part, terms, dir, name)
	if vals == nil {
		return &ReplayResult{Template: "backoff", Note: "could not read the model values"}
	}
	real := func(k string) string {
		v := vals[k]
		if strings.HasPrefix(v, "(/") || strings.HasPrefix(v, "/") {
			fs := strings.Fields(strings.Trim(v, "(/)"))
			if len(fs) == 2 {
				return fs[0] + "/" + fs[1]
			}
		}
		if v == "" {
			return "0"
		}
		return v
	}
	src := fmt.Sprintf(backoffReplayTmpl, ob.Name, vals["cfg.InitialBackoff"], vals["cfg.MaxBackoff"], real("cfg.BackoffMultiplier"), real("cfg.Jitter"), vals["attempt"])
	file := filepath.Join(dir, name+"_replay_test.go")
	_ = os.WriteFile(file, []byte(src), 0o644)
	out, failed, err := runOverlayTest(rd.eng.repo, file, "TestGovcReplay_Backoff", false, 90*time.Second)
	rr := &ReplayResult{Template: "backoff", TestFile: file, TestName: "TestGovcReplay_Backoff", Values: vals, Output: tail(out, 3000), Confirmed: failed && strings.Contains(out, "VIOLATION-REPRODUCED")}
	if err != nil {
		rr.Note = err.Error()
	}
	return rr
}

func tail(s string, n int) string {
	if len(s) <= n {
		return s
	}
	return "..." + s[len(s)-n:]
}

// ---------------------------------------------------------------- C15: error classifier

const classifierReplayTmpl = `package leader

import (
	"context"
	"errors"
	"fmt"
	"strings"
	"testing"

	"github.com/nats-io/nats.go"
)

// govcErr realises an arbitrary combination of the observers the classifier can use.
type govcErr struct {
	msg     string
	is      []error
	timeout *TimeoutError
}

func (e *govcErr) Error() string { return e.msg }
func (e *govcErr) Is(t error) bool {
	for _, s := range e.is {
		if s == t {
			return true
		}
	}
	return false
}
func (e *govcErr) As(target any) bool {
	if p, ok := target.(**TimeoutError); ok && e.timeout != nil {
		*p = e.timeout
		return true
	}
	return false
}

var _ = nats.ErrTimeout
var _ = fmt.Sprint

// Generated by govc from the solver's counterexample to %s.
func TestGovcReplay_Classifier(t *testing.T) {
	var err error
%s
	perm, trans := IsPermanentError(err), IsTransientError(err)
	if err == nil {
		if perm || trans {
			t.Fatalf("VIOLATION-REPRODUCED: nil classified permanent=%%v transient=%%v", perm, trans)
		}
		return
	}
	if perm == trans {
		t.Fatalf("VIOLATION-REPRODUCED: %%T %%q classified permanent=%%v transient=%%v (must be exactly one)", err, err, perm, trans)
	}
	var te *TimeoutError
	ctxClass := errors.Is(err, context.Canceled) || errors.Is(err, context.DeadlineExceeded)
	toClass := errors.As(err, &te)
	cfgClass := errors.Is(err, ErrInvalidConfig) || errors.Is(err, ErrPermissionDenied) || errors.Is(err, ErrBucketNotFound)
	if (ctxClass || toClass) && perm {
		t.Fatalf("VIOLATION-REPRODUCED: %%T %%q is a context/timeout error but classified permanent", err, err)
	}
	if !ctxClass && !toClass && cfgClass && !perm {
		t.Fatalf("VIOLATION-REPRODUCED: %%T %%q is a configuration/permission/bucket error but classified transient", err, err)
	}
	low := strings.ToLower(err.Error())
	conflict := errors.Is(err, nats.ErrKeyExists) || strings.Contains(low, "wrong last sequence")
	if conflict && !ctxClass && !toClass && !perm {
		t.Fatalf("VIOLATION-REPRODUCED: NATS revision conflict %%q classified transient", err)
	}
	for _, unreachable := range []error{nats.ErrTimeout, nats.ErrNoResponders, nats.ErrConnectionClosed} {
		if err == unreachable && perm {
			t.Fatalf("VIOLATION-REPRODUCED: %%q classified permanent", err)
		}
	}
}
`

func replayClassifier(rd *runData, u *Unit, ob *Obligation, part oblPart, dir, name string) *ReplayResult {
	errV, ok := u.entryParams["err"].(*Scalar)
	if !ok {
		return nil
	}
	e := errV.T
	terms := map[string]Term{"nil": Eq(e, TZero), "isTimeoutType": Eq(App(SInt, "typeof", e), u.eng.typeIDName("*TimeoutError")),
		"asTimeout": App(SBool, "ErrAs", e, u.eng.typeIDName("*TimeoutError"))}
	sentinels := map[string]string{"context.Canceled": "context.Canceled", "context.DeadlineExceeded": "context.DeadlineExceeded",
		"ErrInvalidConfig": "ErrInvalidConfig", "ErrPermissionDenied": "ErrPermissionDenied", "ErrBucketNotFound": "ErrBucketNotFound"}
	for k := range sentinels {
		if st, ok := u.sentinels[k]; ok {
			terms["is:"+k] = App(SBool, "ErrIs", e, st)
		}
	}
	low := App(SInt, "StrLower", App(SInt, "ErrMsg", e))
	for _, p := range u.eng.cataloguePatterns {
		terms["has:"+p] = App(SBool, "StrContains", low, u.eng.strID(p))
	}
	for i := range u.catTerms {
		terms[fmt.Sprintf("cat:%d", i)] = Eq(e, u.catTerms[i])
	}
	if _, ok := u.eng.cs.UFuns["Permanent"]; ok {
		terms["permanent"] = App(SBool, "Permanent", e)
	}
	vals := modelValues(u, part, terms, dir, name)
	if vals == nil {
		return &ReplayResult{Template: "classifier", Note: "could not read the model values"}
	}
	var b strings.Builder
	cat := -1
	for i := range u.catTerms {
		if vals[fmt.Sprintf("cat:%d", i)] == "true" {
			cat = i
		}
	}
	catExpr := []string{"nats.ErrKeyExists", `fmt.Errorf("%w: %s", nats.ErrKeyExists, "key exists")`,
		`&nats.APIError{Code: 400, ErrorCode: nats.JSErrCodeStreamWrongLastSequence, Description: "wrong last sequence: 1"}`,
		`&nats.APIError{Code: 400, ErrorCode: nats.JSErrCodeStreamWrongLastSequence, Description: "wrong last sequence: 7"}`,
		`&nats.APIError{Code: 400, ErrorCode: nats.JSErrCodeStreamWrongLastSequence, Description: "wrong last sequence: 18446744073709551615"}`,
		"nats.ErrTimeout", "nats.ErrNoResponders", "nats.ErrConnectionClosed", "context.DeadlineExceeded"}
	switch {
	case vals["nil"] == "true":
		b.WriteString("\terr = nil\n")
	case cat >= 0 && cat < len(catExpr):
		fmt.Fprintf(&b, "\terr = %s\n", catExpr[cat])
	default:
		var has []string
		for _, p := range u.eng.cataloguePatterns {
			if vals["has:"+p] == "true" {
				has = append(has, p)
			}
		}
		if vals["permanent"] == "true" {
			// the callee's verdict is only known as Permanent(err): realise it with a permanent pattern
			has = append(has, "permission denied")
		}
		msg := "x " + strings.Join(has, " | ") + " x"
		var is []string
		for k, expr := range sentinels {
			if vals["is:"+k] == "true" {
				is = append(is, expr)
			}
		}
		sortStrings(is)
		if vals["isTimeoutType"] == "true" {
			fmt.Fprintf(&b, "\terr = &TimeoutError{Operation: %q}\n", msg)
		} else {
			to := "nil"
			if vals["asTimeout"] == "true" {
				to = `&TimeoutError{Operation: "wrapped"}`
			}
			fmt.Fprintf(&b, "\terr = &govcErr{msg: %q, is: []error{%s}, timeout: %s}\n", msg, strings.Join(is, ", "), to)
		}
	}
	src := fmt.Sprintf(classifierReplayTmpl, ob.Name, b.String())
	file := filepath.Join(dir, name+"_replay_test.go")
	_ = os.WriteFile(file, []byte(src), 0o644)
	out, failed, err := runOverlayTest(rd.eng.repo, file, "TestGovcReplay_Classifier", false, 90*time.Second)
	rr := &ReplayResult{Template: "classifier", TestFile: file, TestName: "TestGovcReplay_Classifier", Values: vals, Output: tail(out, 3000), Confirmed: failed && strings.Contains(out, "VIOLATION-REPRODUCED")}
	if err != nil {
		rr.Note = err.Error()
	}
	return rr
}

func sortStrings(s []string) {
	for i := range s {
		for j := i + 1; j < len(s); j++ {
			if s[j] < s[i] {
				s[i], s[j] = s[j], s[i]
			}
		}
	}
}
