package main

// ReplayResult records the attempt to reproduce a counterexample on the real code.
type ReplayResult struct {
	Template  string            `json:"template"`
	TestFile  string            `json:"test_file,omitempty"`
	Cmd       string            `json:"cmd,omitempty"`
	Values    map[string]string `json:"values,omitempty"`
	Output    string            `json:"output,omitempty"`
	Confirmed bool              `json:"confirmed"`
	Note      string            `json:"note,omitempty"`
}

func tryReplay(rd *runData, ob *Obligation, prop, dir, name string) *ReplayResult {
	return nil
}
