package main

import (
	"fmt"
	"go/constant"
	"go/token"
	"go/types"
	"sort"
	"strings"

	"golang.org/x/tools/go/ssa"
)

// ---------------------------------------------------------------- unit

type Obligation struct {
	Name   string
	Props  []string
	Parts  []oblPart // conjunction of (pc => goal); several sites may share one name
	Unit   *Unit
	Where  []string
	Kind   string // "smt" | "structural"
	Holds  bool   // structural verdict
	Detail string
	Src    string
	Result *SolveResult
	Family string // label without property prefix
	FnKey  string
}

type oblPart struct {
	PC, Goal Term
	NLines   int
}

type Unit struct {
	eng         *Engine
	root        *ssa.Function
	rootKey     string
	fc          *FuncContract
	lines       []string
	decls       []string
	facts       []string
	declared    map[string]bool
	obls        []*Obligation
	oblByName   map[string]*Obligation
	n           int
	cells       int
	allocs      int
	unmodelled  map[string]int
	degraded    []string
	siteCount   map[string]int
	entry       *State
	stack       []*ssa.Function
	sends       map[int][]sendRec
	covers      []coverPoint
	ghostSort   map[string]Sort
	loopsSeen   int
	spawnDepth  int
	curFn       []string // stack of function keys being executed (for naming)
	sentinels   map[string]Term
	globals     map[string]Val
	onceDone    map[string]bool
	failed      string
	entryParams map[string]Val
	wrapFacts   [][2]Term
	knownRefs   []Term
	rootCaller  map[string]Term
	onceDepth   int
	assumedUsed map[string]int
	curState    *State
	catDone     bool
	catTerms    []Term
	closedChans map[string]bool
	tableCells  map[string]*Cell
	chanCap     map[int]Term
	// cell counter at the head of each loop currently being cut by invariant: a local channel with a smaller
	// id was made before that loop and may still hold a value sent in an earlier iteration
	loopMarks    []int
	initArrays   map[string]Term
	allocTypes   map[int]types.Type
	randomUUID   map[Val]bool
	strLenKnown  map[string]bool
	allocMarks   []int // number of heap allocations made when each enclosing loop was cut
	strLitKnown  map[string]bool
	allocPC      map[int]Term
	objinvDone   map[string]bool
	globalAxioms []string
}

type coverPoint struct {
	Name   string
	PC     Term
	NLines int
}

type sendRec struct {
	PC  Term
	Val Val
}

func (u *Unit) emit(line string) { u.lines = append(u.lines, line) }

func (u *Unit) fresh(sort Sort, hint string) Term {
	u.n++
	name := fmt.Sprintf("%s_%d", sanitize(hint), u.n)
	u.decls = append(u.decls, fmt.Sprintf("(declare-const %s %s)", name, sortSMT(sort)))
	return Term{name, sort}
}

// fact records an unconditional assertion that is part of every query.
func (u *Unit) fact(s string) { u.facts = append(u.facts, s) }

func sortSMT(s Sort) string {
	switch s {
	case SBool:
		return "Bool"
	case SReal:
		return "Real"
	case SArrInt:
		return "(Array Int Int)"
	case SArrBool:
		return "(Array Int Bool)"
	case SArrReal:
		return "(Array Int Real)"
	case SArr2Int:
		return "(Array Int (Array Int Int))"
	case SArr2Bool:
		return "(Array Int (Array Int Bool))"
	}
	return "Int"
}

const (
	SArrInt Sort = iota + 10
	SArrBool
	SArrReal
	SArr2Int
	SArr2Bool
)

func arrSortFor(elem Sort) Sort {
	switch elem {
	case SArrInt:
		return SArr2Int
	case SArrBool:
		return SArr2Bool
	case SBool:
		return SArrBool
	case SReal:
		return SArrReal
	}
	return SArrInt
}

func elemSortOf(arr Sort) Sort {
	switch arr {
	case SArr2Int:
		return SArrInt
	case SArr2Bool:
		return SArrBool
	case SArrBool:
		return SBool
	case SArrReal:
		return SReal
	}
	return SInt
}

func SelectA(arr, idx Term) Term {
	return Term{"(select " + arr.S + " " + idx.S + ")", elemSortOf(arr.Sort)}
}
func StoreA(arr, idx, v Term) Term {
	if elemSortOf(arr.Sort) == SReal {
		v = ToReal(v)
	}
	return Term{"(store " + arr.S + " " + idx.S + " " + v.S + ")", arr.Sort}
}

// define names a term when it is large, so later terms stay small.
func (u *Unit) define(t Term, hint string) Term {
	if len(t.S) < 48 {
		return t
	}
	u.n++
	name := fmt.Sprintf("%s_%d", sanitize(hint), u.n)
	u.emit(fmt.Sprintf("(define-fun %s () %s %s)", name, sortSMT(t.Sort), t.S))
	return Term{name, t.Sort}
}

func (u *Unit) assume(pc, fact Term) {
	f := Implies(pc, fact)
	if f.IsTrue() {
		return
	}
	u.emit("(assert " + f.S + ")")
}

func (u *Unit) note(format string, args ...interface{}) {
	s := fmt.Sprintf(format, args...)
	for _, d := range u.degraded {
		if d == s {
			return
		}
	}
	u.degraded = append(u.degraded, s)
}

func (u *Unit) curKey() string {
	if len(u.curFn) == 0 {
		return u.rootKey
	}
	return u.curFn[len(u.curFn)-1]
}

// oblige registers (pc => goal) under a name. Sites with the same name are
// conjoined into one obligation.
func (u *Unit) oblige(label string, props []string, site string, pc, goal Term, where string, src string) {
	if pc.IsFalse() {
		return
	}
	fnKey := u.curKey()
	name := label + "@" + fnKey
	if site != "" {
		name += "->" + site
	}
	if fnKey != u.rootKey {
		name += "~" + u.rootKey
	}
	ob := u.oblByName[name]
	if ob == nil {
		ob = &Obligation{Name: name, Props: props, Unit: u, Kind: "smt", Src: src, Family: label, FnKey: fnKey}
		u.oblByName[name] = ob
		u.obls = append(u.obls, ob)
	}
	ob.Parts = append(ob.Parts, oblPart{pc, goal, len(u.lines)})
	if where != "" {
		ob.Where = append(ob.Where, where)
	}
}

func (u *Unit) structural(label string, props []string, site string, holds bool, where, detail string) {
	fnKey := u.curKey()
	name := label + "@" + fnKey
	if site != "" {
		name += "->" + site
	}
	if fnKey != u.rootKey {
		name += "~" + u.rootKey
	}
	ob := u.oblByName[name]
	if ob == nil {
		ob = &Obligation{Name: name, Props: props, Unit: u, Kind: "structural", Holds: true, Family: label, FnKey: fnKey}
		u.oblByName[name] = ob
		u.obls = append(u.obls, ob)
	}
	if !holds {
		ob.Holds = false
		if ob.Detail != "" {
			ob.Detail += "; "
		}
		ob.Detail += detail
	}
	if where != "" {
		ob.Where = append(ob.Where, where)
	}
}

// ---------------------------------------------------------------- state

type DeferRec struct {
	Guard Term
	Call  *ssa.CallCommon
	Instr *ssa.Defer
	Args  []Val
	Fn    Val
}

type acqRec struct {
	Lock string
	Base Term
}

type State struct {
	pc     Term
	heap   map[string]Term
	cells  map[*Cell]map[string]Val
	ghost  map[string]Term
	defers map[*Frame][]*DeferRec
	acq    []acqRec
}

func (s *State) clone() *State {
	n := &State{pc: s.pc, heap: make(map[string]Term, len(s.heap)), cells: make(map[*Cell]map[string]Val, len(s.cells)),
		ghost: make(map[string]Term, len(s.ghost)), defers: make(map[*Frame][]*DeferRec, len(s.defers))}
	for k, v := range s.heap {
		n.heap[k] = v
	}
	for k, v := range s.cells {
		n.cells[k] = v // inner maps are copy-on-write
	}
	for k, v := range s.ghost {
		n.ghost[k] = v
	}
	for k, v := range s.defers {
		n.defers[k] = v
	}
	n.acq = s.acq
	return n
}

type Frame struct {
	fn     *ssa.Function
	key    string
	vals   map[ssa.Value]Val
	parent *Frame
	unit   *Unit
	loops  map[*ssa.BasicBlock]*loopInfo
	order  []*ssa.BasicBlock
	hooks  *FuncContract // contract whose hooks/ghosts apply (root's)
	retTyp *types.Tuple
}

type loopInfo struct {
	head    *ssa.BasicBlock
	body    map[*ssa.BasicBlock]bool
	ordinal int
	backs   []*ssa.BasicBlock
}

type edgeState struct {
	from *ssa.BasicBlock
	st   *State
}

// ---------------------------------------------------------------- heap

func (u *Unit) heapArr(st *State, key string, elem Sort) Term {
	if t, ok := st.heap[key]; ok {
		return t
	}
	// first touch: the entry-state array
	name := "H0_" + sanitize(key)
	t := Term{name, arrSortFor(elem)}
	decl := fmt.Sprintf("(declare-const %s %s)", name, sortSMT(t.Sort))
	if !u.declared[decl] {
		u.declared[decl] = true
		u.decls = append(u.decls, decl)
	}
	// all states share the entry array until written
	st.heap[key] = t
	if u.entry != nil {
		if _, ok := u.entry.heap[key]; !ok {
			u.entry.heap[key] = t
		}
	}
	return t
}

// leafSort gives the SMT sort of a heap/cell leaf of Go type t.
func (u *Unit) leafSort(t types.Type) Sort {
	ts := typeString(t)
	switch ts {
	case "atomic.Bool":
		return SBool
	}
	return sortOf(t)
}

func (u *Unit) isLeaf(t types.Type) bool {
	_, tr := u.eng.transparent(t)
	return !tr
}

// leaves enumerates the leaf paths below a type.
func (u *Unit) leaves(t types.Type, prefix []string, f func(path []string, lt types.Type)) {
	if st, ok := u.eng.transparent(t); ok {
		for i := 0; i < st.NumFields(); i++ {
			u.leaves(st.Field(i).Type(), append(append([]string{}, prefix...), st.Field(i).Name()), f)
		}
		return
	}
	if at, ok := t.Underlying().(*types.Array); ok && at.Len() <= 16 {
		for i := int64(0); i < at.Len(); i++ {
			u.leaves(at.Elem(), append(append([]string{}, prefix...), fmt.Sprint(i)), f)
		}
		return
	}
	f(prefix, t)
}

func (u *Unit) zeroVal(t types.Type) Val {
	if st, ok := u.eng.transparent(t); ok {
		sv := &StructV{Typ: t}
		for i := 0; i < st.NumFields(); i++ {
			sv.F = append(sv.F, u.zeroVal(st.Field(i).Type()))
		}
		return sv
	}
	switch sortOf(t) {
	case SBool:
		return &Scalar{T: TFalse, Typ: t}
	case SReal:
		return &Scalar{T: Term{"0.0", SReal}, Typ: t}
	}
	return &Scalar{T: TZero, Typ: t}
}

func (u *Unit) freshVal(t types.Type, hint string, pc Term) Val {
	if st, ok := u.eng.transparent(t); ok {
		sv := &StructV{Typ: t}
		for i := 0; i < st.NumFields(); i++ {
			sv.F = append(sv.F, u.freshVal(st.Field(i).Type(), hint+"_"+st.Field(i).Name(), pc))
		}
		return sv
	}
	if tup, ok := t.(*types.Tuple); ok {
		tv := &TupleV{}
		for i := 0; i < tup.Len(); i++ {
			tv.Vs = append(tv.Vs, u.freshVal(tup.At(i).Type(), fmt.Sprintf("%s_r%d", hint, i), pc))
		}
		return tv
	}
	x := u.fresh(sortOf(t), hint)
	u.typeFacts(x, t)
	return &Scalar{T: x, Typ: t}
}

var (
	minInt64 = "9223372036854775808"
	maxInt64 = "9223372036854775807"
)

// typeFacts asserts range facts that hold for every value of the type.
func (u *Unit) typeFacts(x Term, t types.Type) {
	if x.Sort != SInt {
		return
	}
	switch b := t.Underlying().(type) {
	case *types.Basic:
		if b.Info()&types.IsInteger != 0 {
			lo, hi := intRange(b)
			u.fact(fmt.Sprintf("(assert (and (<= %s %s) (<= %s %s)))", lo, x.S, x.S, hi))
		}
	case *types.Pointer, *types.Chan, *types.Signature, *types.Map, *types.Slice, *types.Interface:
		u.fact(fmt.Sprintf("(assert (>= %s 0))", x.S))
	}
}

func intRange(b *types.Basic) (string, string) {
	switch b.Kind() {
	case types.Int8:
		return "(- 128)", "127"
	case types.Int16:
		return "(- 32768)", "32767"
	case types.Int32:
		return "(- 2147483648)", "2147483647"
	case types.Uint8:
		return "0", "255"
	case types.Uint16:
		return "0", "65535"
	case types.Uint32:
		return "0", "4294967295"
	case types.Uint, types.Uint64, types.Uintptr:
		return "0", "18446744073709551615"
	}
	return "(- " + minInt64 + ")", maxInt64
}

func (u *Unit) newCell(t types.Type, name string) *Cell {
	u.cells++
	return &Cell{ID: u.cells, Name: name, Typ: t}
}

func typeAt(t types.Type, path []string, eng *Engine) types.Type {
	for _, p := range path {
		t = types.Unalias(t)
		if st, ok := t.Underlying().(*types.Struct); ok {
			found := false
			for i := 0; i < st.NumFields(); i++ {
				if st.Field(i).Name() == p {
					t = st.Field(i).Type()
					found = true
					break
				}
			}
			if !found {
				return nil
			}
			continue
		}
		if at, ok := t.Underlying().(*types.Array); ok {
			t = at.Elem()
			continue
		}
		return nil
	}
	return t
}

// loadPtr reads through an address.
func (u *Unit) loadPtr(fr *Frame, st *State, p *PtrV, where string) Val {
	if p.Cell != nil && len(p.Path) == 0 && strings.HasPrefix(p.Cell.Name, "G:") {
		if cs, ok := u.eng.constTables[p.Cell.Name[2:]]; ok {
			return u.constTable(st, p.Cell.Name[2:], cs, p.Elem)
		}
	}
	if p.Cell != nil {
		return u.loadCell(st, p.Cell, p.Path, p.Elem)
	}
	return u.loadHeap(fr, st, p, where, true)
}

// constTable: the backing array of a package-level constant table, as a cell of this unit.
func (u *Unit) constTable(st *State, name string, cs []ssa.Value, typ types.Type) Val {
	if u.tableCells == nil {
		u.tableCells = map[string]*Cell{}
	}
	c := u.tableCells[name]
	if c == nil {
		c = u.newCell(typ, "table:"+name)
		u.tableCells[name] = c
	}
	if _, ok := st.cells[c]; !ok {
		for i, kv := range cs {
			switch k := kv.(type) {
			case *ssa.Const:
				u.storeCell(st, c, []string{fmt.Sprint(i)}, k.Type(), u.constVal(k))
			case *ssa.UnOp:
				g := k.X.(*ssa.Global)
				u.storeCell(st, c, []string{fmt.Sprint(i)}, k.Type(), &Scalar{T: u.sentinel(g.Name()), Typ: k.Type(), Origin: "global:" + g.Name()})
			}
		}
	}
	return &SliceV{Cell: c, N: len(cs), T: IntLit(int64(-200000 - c.ID)), Typ: typ}
}

func (u *Unit) loadCell(st *State, c *Cell, path []string, t types.Type) Val {
	if t == nil {
		return &Scalar{T: TZero, Typ: types.Typ[types.Int]}
	}
	if sty, ok := u.eng.transparent(t); ok {
		sv := &StructV{Typ: t}
		for i := 0; i < sty.NumFields(); i++ {
			sv.F = append(sv.F, u.loadCell(st, c, append(append([]string{}, path...), sty.Field(i).Name()), sty.Field(i).Type()))
		}
		return sv
	}
	m := st.cells[c]
	k := strings.Join(path, ".")
	if v, ok := m[k]; ok {
		return v
	}
	return u.zeroVal(t)
}

func (u *Unit) storeCell(st *State, c *Cell, path []string, t types.Type, v Val) {
	if sty, ok := u.eng.transparent(t); ok {
		sv, isS := v.(*StructV)
		for i := 0; i < sty.NumFields(); i++ {
			var fv Val
			if isS && i < len(sv.F) {
				fv = sv.F[i]
			} else {
				fv = u.freshVal(sty.Field(i).Type(), "st", st.pc)
			}
			u.storeCell(st, c, append(append([]string{}, path...), sty.Field(i).Name()), sty.Field(i).Type(), fv)
		}
		return
	}
	old := st.cells[c]
	m := make(map[string]Val, len(old)+1)
	for k, x := range old {
		m[k] = x
	}
	m[strings.Join(path, ".")] = v
	st.cells[c] = m
}

// rawHeap reads the current array value of a heap leaf (no interference,
// no obligations): used by contract expressions.
func (u *Unit) rawHeap(st *State, root string, path []string, base Term, lt types.Type) Val {
	if sty, ok := u.eng.transparent(lt); ok {
		sv := &StructV{Typ: lt}
		for i := 0; i < sty.NumFields(); i++ {
			sv.F = append(sv.F, u.rawHeap(st, root, append(append([]string{}, path...), sty.Field(i).Name()), base, sty.Field(i).Type()))
		}
		return sv
	}
	key := pathKey(root, path)
	if _, isMap := lt.Underlying().(*types.Map); isMap {
		return &MapV{Base: base, Key: key, Typ: lt}
	}
	arr := u.heapArr(st, key, u.leafSort(lt))
	return &Scalar{T: SelectA(arr, base), Typ: lt, Origin: "field:" + key}
}

func isOwnAlloc(base Term) bool { return strings.HasPrefix(base.S, "(- ") }

func (u *Unit) lockKeyFor(fd *FieldDecl) string {
	if fd == nil || fd.Lock == "" {
		return ""
	}
	if strings.Contains(fd.Lock, ".") {
		return fd.Lock
	}
	root := fd.Key[:strings.Index(fd.Key, ".")]
	return root + "." + fd.Lock
}

func (u *Unit) heldTerm(st *State, lockKey string, base Term) Term {
	arr, ok := st.ghost["held:"+lockKey]
	if !ok {
		arr = Term{"((as const (Array Int Int)) 0)", SArrInt}
		st.ghost["held:"+lockKey] = arr
	}
	return SelectA(arr, base)
}

func (u *Unit) nheld(st *State, lockKey string) Term {
	if t, ok := st.ghost["nheld:"+lockKey]; ok {
		return t
	}
	return TZero
}

func propsOfField(fd *FieldDecl, dflt ...string) []string {
	if fd != nil && len(fd.Props) > 0 {
		return fd.Props
	}
	return dflt
}

// loadHeap reads a heap location following the field's class.
func (u *Unit) loadHeap(fr *Frame, st *State, p *PtrV, where string, code bool) Val {
	if sty, ok := u.eng.transparent(p.Elem); ok {
		sv := &StructV{Typ: p.Elem}
		for i := 0; i < sty.NumFields(); i++ {
			q := &PtrV{Base: p.Base, Root: p.Root, Path: append(append([]string{}, p.Path...), sty.Field(i).Name()), Elem: sty.Field(i).Type(), RTyp: p.RTyp}
			sv.F = append(sv.F, u.loadHeap(fr, st, q, where, code))
		}
		return sv
	}
	key := pathKey(p.Root, p.Path)
	fd := u.eng.fieldDecl(p.Root, p.Path)
	if _, isMap := p.Elem.Underlying().(*types.Map); isMap {
		// a map stored in a field: modelled as has/val arrays per owning object
		if fd != nil && fd.Class == "guarded_by" && !isOwnAlloc(p.Base) {
			lk := u.lockKeyFor(fd)
			u.oblige("guarded_by("+key+").read", []string{"C20"}, "", st.pc, Cmp(">=", u.heldTerm(st, lk, p.Base), IntLit(1)), where, "read of "+key+" requires "+lk)
		}
		return &MapV{Base: p.Base, Key: key, Typ: p.Elem}
	}
	arr := u.heapArr(st, key, u.leafSort(p.Elem))
	cur := SelectA(arr, p.Base)
	out := &Scalar{T: cur, Typ: p.Elem, Origin: "field:" + key}
	if isPointer(p.Elem) && fr != nil {
		if _, tr := u.eng.transparent(p.Elem.Underlying().(*types.Pointer).Elem()); tr {
			u.assumeObjInv(fr, st, out)
		}
	}
	if fd == nil || isOwnAlloc(p.Base) {
		return out
	}
	switch fd.Class {
	case "guarded_by":
		lk := u.lockKeyFor(fd)
		held := u.heldTerm(st, lk, p.Base)
		u.oblige("guarded_by("+key+").read", []string{"C20"}, "", st.pc, Cmp(">=", held, IntLit(1)), where, "read of "+key+" requires "+lk)
		fr0 := u.fresh(u.leafSort(p.Elem), "racy_"+p.Path[len(p.Path)-1])
		u.typeFacts(fr0, p.Elem)
		out.T = u.define(Ite(Cmp(">=", held, IntLit(1)), cur, fr0), "ld")
		if code && fr != nil {
			u.event(fr, st, "load "+key, map[string]Val{"value": out}, where)
		}
	case "owned_by":
		ok := false
		for _, o := range fd.Owners {
			if o == u.curKey() || strings.HasSuffix(u.curKey(), "."+o) || o == bareName(u.curKey()) {
				ok = true
			}
		}
		u.structural("frame.owned("+key+")", propsOfField(fd, "C20"), "", ok, where, "access to "+key+" from "+u.curKey()+" which is not an owner")
	}
	return out
}

func bareName(key string) string {
	if i := strings.LastIndex(key, "."); i >= 0 {
		return key[i+1:]
	}
	return key
}

func (u *Unit) storePtr(fr *Frame, st *State, p *PtrV, v Val, where string) {
	if p.Cell != nil {
		u.storeCell(st, p.Cell, p.Path, p.Elem, v)
		return
	}
	u.storeHeap(fr, st, p, v, where)
}

func (u *Unit) storeHeap(fr *Frame, st *State, p *PtrV, v Val, where string) {
	if sty, ok := u.eng.transparent(p.Elem); ok {
		sv, isS := v.(*StructV)
		for i := 0; i < sty.NumFields(); i++ {
			q := &PtrV{Base: p.Base, Root: p.Root, Path: append(append([]string{}, p.Path...), sty.Field(i).Name()), Elem: sty.Field(i).Type(), RTyp: p.RTyp}
			var fv Val
			if isS && i < len(sv.F) {
				fv = sv.F[i]
			} else {
				fv = u.freshVal(sty.Field(i).Type(), "st", st.pc)
			}
			u.storeHeap(fr, st, q, fv, where)
		}
		return
	}
	key := pathKey(p.Root, p.Path)
	fd := u.eng.fieldDecl(p.Root, p.Path)
	if _, isMap := p.Elem.Underlying().(*types.Map); isMap {
		if fd != nil && fd.Class == "guarded_by" && !isOwnAlloc(p.Base) {
			lk := u.lockKeyFor(fd)
			u.oblige("guarded_by("+key+").write", []string{"C20"}, "", st.pc, Eq(u.heldTerm(st, lk, p.Base), IntLit(2)), where, "write of "+key+" requires "+lk+" write-held")
		}
		u.storeMapField(st, p.Base, key, v)
		return
	}
	t, ok := valTerm(v)
	if !ok {
		// function values / closures stored into fields: opaque non-nil id
		t = u.fresh(SInt, "fnval")
		u.fact(fmt.Sprintf("(assert (> %s 0))", t.S))
	}
	if fd != nil && !isOwnAlloc(p.Base) {
		switch fd.Class {
		case "immutable":
			u.structural("frame.immutable("+key+")", propsOfField(fd, "C20"), "", false, where, "store to immutable field "+key+" outside construction")
		case "guarded_by":
			lk := u.lockKeyFor(fd)
			u.oblige("guarded_by("+key+").write", []string{"C20"}, "", st.pc, Eq(u.heldTerm(st, lk, p.Base), IntLit(2)), where, "write of "+key+" requires "+lk+" write-held")
		case "owned_by":
			okk := false
			for _, o := range fd.Owners {
				if o == bareName(u.curKey()) {
					okk = true
				}
			}
			u.structural("frame.owned("+key+")", propsOfField(fd, "C20"), "", okk, where, "store to "+key+" from non-owner "+u.curKey())
		case "atomic", "sync":
			u.structural("atomic.only("+key+")", []string{"C20"}, "", false, where, "plain store to atomic field "+key)
		}
	}
	arr := u.heapArr(st, key, u.leafSort(p.Elem))
	oldT := u.define(SelectA(arr, p.Base), "old_"+p.Path[len(p.Path)-1])
	if fd != nil && fd.Counter {
		u.oblige("counter.unit_step("+key+")", propsOfField(fd, "C20"), "", st.pc, Or(Eq(t, Arith("+", oldT, IntLit(1))), Eq(t, Arith("-", oldT, IntLit(1)))), where, "a counter field changes by steps of one")
	}
	st.heap[key] = u.define(StoreA(arr, p.Base, t), "H_"+p.Path[len(p.Path)-1])
	u.event(fr, st, "store "+key, map[string]Val{"value": v, "old": &Scalar{T: oldT, Typ: p.Elem}, "base": &Scalar{T: p.Base, Typ: types.NewPointer(p.RTyp)}}, where)
}

// havocHeap replaces every non-immutable heap array by a fresh one.
// Fields protected by a lock this activation holds keep their value at
// the holder's object.
func (u *Unit) havocHeap(st *State, only map[string]bool, reason string) {
	keys := sortedKeys(st.heap)
	for _, key := range keys {
		if only != nil && !only[key] {
			continue
		}
		i := strings.Index(key, ".")
		fd := u.eng.fieldDecl(key[:i], strings.Split(key[i+1:], "."))
		if fd != nil && (fd.Class == "immutable") {
			continue
		}
		if fd != nil && fd.Class == "owned_by" && only == nil && reason != "loop" {
			continue
		}
		old := st.heap[key]
		nw := u.fresh(old.Sort, "Hv_"+sanitize(key))
		if fd != nil && fd.Class == "ghost" && fd.Mono {
			for _, r := range u.knownRefs {
				u.assume(st.pc, Implies(SelectA(old, r), SelectA(nw, r)))
			}
		}
		if fd != nil {
			if lk := u.lockKeyFor(fd); lk != "" {
				for _, a := range st.acq {
					if a.Lock == lk {
						held := u.heldTerm(st, lk, a.Base)
						u.assume(And(st.pc, Cmp(">=", held, IntLit(1))), Eq(SelectA(nw, a.Base), SelectA(old, a.Base)))
					}
				}
			}
		}
		// objects allocated by this activation and not yet shared keep their values
		for k := 1; k <= u.allocs; k++ {
			b := IntLit(int64(-k))
			u.assume(st.pc, Eq(SelectA(nw, b), SelectA(old, b)))
		}
		st.heap[key] = nw
	}
}

// ---------------------------------------------------------------- values

func (u *Unit) constVal(c *ssa.Const) Val {
	t := c.Type()
	if c.Value == nil {
		return u.zeroVal(t)
	}
	switch c.Value.Kind() {
	case constant.Bool:
		return &Scalar{T: BoolLit(constant.BoolVal(c.Value)), Typ: t}
	case constant.String:
		id := u.eng.strID(constant.StringVal(c.Value))
		if u.strLenKnown == nil {
			u.strLenKnown = map[string]bool{}
		}
		if !u.strLenKnown[id.S] {
			u.strLenKnown[id.S] = true
			u.assume(TTrue, Eq(App(SInt, "LenOf", id), IntLit(int64(len(constant.StringVal(c.Value))))))
		}
		return &Scalar{T: id, Typ: t}
	case constant.Int:
		if sortOf(t) == SReal {
			return &Scalar{T: Term{c.Value.ExactString() + ".0", SReal}, Typ: t}
		}
		return &Scalar{T: BigLit(c.Value.ExactString()), Typ: t}
	case constant.Float:
		return &Scalar{T: realLit(c.Value), Typ: t}
	}
	return u.freshVal(t, "const", TTrue)
}

func realLit(v constant.Value) Term {
	if v.Kind() == constant.Int {
		s := v.ExactString()
		if strings.HasPrefix(s, "-") {
			return Term{"(- " + s[1:] + ".0)", SReal}
		}
		return Term{s + ".0", SReal}
	}
	r := constant.ToFloat(v)
	num := constant.Num(r)
	den := constant.Denom(r)
	ns, ds := num.ExactString(), den.ExactString()
	neg := strings.HasPrefix(ns, "-")
	if neg {
		ns = ns[1:]
	}
	s := "(/ " + ns + ".0 " + ds + ".0)"
	if ds == "1" {
		s = ns + ".0"
	}
	if neg {
		s = "(- " + s + ")"
	}
	return Term{s, SReal}
}

func (u *Unit) get(fr *Frame, v ssa.Value) Val {
	switch x := v.(type) {
	case *ssa.Const:
		return u.constVal(x)
	case *ssa.Function:
		return &ClosureV{Fn: x}
	case *ssa.Global:
		return u.globalPtr(x)
	case *ssa.Builtin:
		return &Scalar{T: TZero, Typ: x.Type(), Origin: "builtin:" + x.Name()}
	}
	for f := fr; f != nil; f = f.parent {
		if val, ok := f.vals[v]; ok {
			return val
		}
		if f.fn == v.Parent() {
			break
		}
	}
	u.note("value %s (%T) in %s used before definition (unexecuted block?)", v.Name(), v, fr.key)
	nv := u.freshVal(v.Type(), "undef_"+v.Name(), TTrue)
	fr.vals[v] = nv
	return nv
}

// globalPtr: package-level variables. Error sentinels are modelled as
// constants (assumed never reassigned).
func (u *Unit) globalPtr(g *ssa.Global) Val {
	name := g.Name()
	if g.Pkg != nil && g.Pkg.Pkg != u.eng.tpkg {
		name = g.Pkg.Pkg.Name() + "." + name
	}
	elem := g.Type().(*types.Pointer).Elem()
	c := u.globalCell(name, elem)
	return &PtrV{Cell: c, Elem: elem}
}

var globalCells = map[string]*Cell{}

func (u *Unit) globalCell(name string, elem types.Type) *Cell {
	if c, ok := globalCells[name]; ok {
		return c
	}
	c := &Cell{ID: -len(globalCells) - 1, Name: "G:" + name, Typ: elem}
	globalCells[name] = c
	return c
}

func (u *Unit) sentinel(name string) Term {
	if t, ok := u.sentinels[name]; ok {
		return t
	}
	cn := "G_" + sanitize(name)
	u.decls = append(u.decls, fmt.Sprintf("(declare-const %s Int)", cn))
	t := Term{cn, SInt}
	u.sentinels[name] = t
	// distinct, non-nil
	u.fact(fmt.Sprintf("(assert (and (> %s 0) (< %s 1000000)))", cn, cn))
	for _, on := range sortedKeys(u.sentinels) {
		if on != name {
			u.fact(fmt.Sprintf("(assert (not (= %s %s)))", cn, u.sentinels[on].S))
		}
	}
	return t
}

// mergeVals builds ite(c, a, b) over structured values.
// mergeSlices: the join of two slice values; statically known element lists survive with their guards.
func (u *Unit) mergeSlices(c Term, a, b Val, t Term, typ types.Type) Val {
	out := &SliceV{T: t, Typ: typ}
	ea, ga, ka := u.knownElems(u.curState, a)
	eb, gb, kb := u.knownElems(u.curState, b)
	if ka && kb {
		for i := range ea {
			out.Elems = append(out.Elems, ea[i])
			out.Guards = append(out.Guards, And(c, ga[i]))
		}
		for i := range eb {
			out.Elems = append(out.Elems, eb[i])
			out.Guards = append(out.Guards, And(Not(c), gb[i]))
		}
		out.Known = true
	}
	return out
}

func (u *Unit) mergeVals(c Term, a, b Val) Val {
	if a == nil {
		return b
	}
	if b == nil {
		return a
	}
	switch x := a.(type) {
	case *Scalar:
		if y, ok := b.(*Scalar); ok {
			o := x.Origin
			if y.Origin != o {
				o = ""
			}
			aux := x.Aux
			if y.Aux != aux {
				if aux != nil && y.Aux != nil {
					aux = u.mergeVals(c, x.Aux, y.Aux)
				} else if aux == nil {
					aux = y.Aux
				}
			}
			var keys *keySet
			if x.Keys != nil && y.Keys != nil {
				keys = &keySet{known: x.Keys.known && y.Keys.known, ks: map[string]bool{}}
				for k := range x.Keys.ks {
					keys.ks[k] = true
				}
				for k := range y.Keys.ks {
					keys.ks[k] = true
				}
			}
			return &Scalar{T: Ite(c, x.T, y.T), Typ: x.Typ, Origin: o, Aux: aux, Allocs: unionAllocs(allocsOf(x), allocsOf(y)), Keys: keys}
		}
		if y, ok := b.(*ClosureV); ok {
			return &Scalar{T: Ite(c, x.T, u.closureID(y)), Typ: x.Typ}
		}
		if y, ok := b.(*SliceV); ok {
			return u.mergeSlices(c, x, y, Ite(c, x.T, y.T), y.Typ)
		}
	case *StructV:
		if y, ok := b.(*StructV); ok && len(x.F) == len(y.F) {
			r := &StructV{Typ: x.Typ}
			for i := range x.F {
				r.F = append(r.F, u.mergeVals(c, x.F[i], y.F[i]))
			}
			return r
		}
	case *TupleV:
		if y, ok := b.(*TupleV); ok && len(x.Vs) == len(y.Vs) {
			r := &TupleV{}
			for i := range x.Vs {
				r.Vs = append(r.Vs, u.mergeVals(c, x.Vs[i], y.Vs[i]))
			}
			return r
		}
	case *PtrV:
		if y, ok := b.(*PtrV); ok {
			if x.Cell != nil && x.Cell == y.Cell && strings.Join(x.Path, ".") == strings.Join(y.Path, ".") {
				return x
			}
			if x.Cell == nil && y.Cell == nil && x.Root == y.Root && strings.Join(x.Path, ".") == strings.Join(y.Path, ".") {
				return &PtrV{Base: Ite(c, x.Base, y.Base), Root: x.Root, Path: x.Path, Elem: x.Elem, RTyp: x.RTyp}
			}
		}
	case *MapV:
		if y, ok := b.(*MapV); ok && x.Key == y.Key {
			return &MapV{Base: Ite(c, x.Base, y.Base), Key: x.Key, Typ: x.Typ}
		}
	case *ClosureV:
		if y, ok := b.(*ClosureV); ok && x.Fn == y.Fn {
			return x
		}
		if y, ok := b.(*Scalar); ok {
			return &Scalar{T: Ite(c, u.closureID(x), y.T), Typ: y.Typ}
		}
	case *SliceV:
		if y, ok := b.(*SliceV); ok {
			if x.Cell == y.Cell && x.Cell != nil {
				return x
			}
			return u.mergeSlices(c, x, y, Ite(c, x.T, y.T), x.Typ)
		}
		if y, ok := b.(*Scalar); ok {
			return u.mergeSlices(c, x, y, Ite(c, x.T, y.T), x.Typ)
		}
	}
	u.note("cannot merge values %T / %T", a, b)
	return a
}

// defineVal names the scalar leaves of a value.
func (u *Unit) defineVal(v Val, hint string) Val {
	switch x := v.(type) {
	case *Scalar:
		return &Scalar{T: u.define(x.T, hint), Typ: x.Typ, Origin: x.Origin, Aux: x.Aux, Allocs: x.Allocs, Keys: x.Keys}
	case *StructV:
		r := &StructV{Typ: x.Typ}
		for _, f := range x.F {
			r.F = append(r.F, u.defineVal(f, hint))
		}
		return r
	case *TupleV:
		r := &TupleV{}
		for _, f := range x.Vs {
			r.Vs = append(r.Vs, u.defineVal(f, hint))
		}
		return r
	}
	return v
}

func (u *Unit) closureID(c *ClosureV) Term {
	t := u.fresh(SInt, "closure")
	u.fact(fmt.Sprintf("(assert (> %s 0))", t.S))
	return t
}

func (u *Unit) mergeStates(ins []edgeState) *State {
	if len(ins) == 1 {
		return ins[0].st
	}
	out := ins[len(ins)-1].st.clone()
	for i := len(ins) - 2; i >= 0; i-- {
		s := ins[i].st
		c := s.pc
		for _, k := range unionKeys(out.heap, s.heap) {
			a, aok := s.heap[k]
			b, bok := out.heap[k]
			if !aok {
				a = u.heapArr(s, k, elemSortOf(b.Sort))
			}
			if !bok {
				b = u.heapArr(out, k, elemSortOf(a.Sort))
			}
			out.heap[k] = u.define(Ite(c, a, b), "Hm")
		}
		for _, k := range unionKeys(out.ghost, s.ghost) {
			a, aok := s.ghost[k]
			b, bok := out.ghost[k]
			if !aok {
				a = u.ghostDefault(k)
			}
			if !bok {
				b = u.ghostDefault(k)
			}
			out.ghost[k] = u.define(Ite(c, a, b), "g")
		}
		for cell, sm := range s.cells {
			om := out.cells[cell]
			if sameMap(sm, om) {
				continue
			}
			nm := map[string]Val{}
			for _, k := range unionKeys(sm, om) {
				a, aok := sm[k]
				b, bok := om[k]
				lt := typeAt(cell.Typ, splitPath(k), u.eng)
				if !aok {
					a = u.zeroVal(orInt(lt))
				}
				if !bok {
					b = u.zeroVal(orInt(lt))
				}
				nm[k] = u.mergeVals(c, a, b)
			}
			out.cells[cell] = nm
		}
		// defers: union with guards
		for fr, sd := range s.defers {
			od := out.defers[fr]
			if sameDefers(sd, od) {
				continue
			}
			out.defers[fr] = mergeDefers(c, sd, od)
		}
		for fr, od := range out.defers {
			if _, ok := s.defers[fr]; !ok && len(od) > 0 {
				out.defers[fr] = mergeDefers(c, nil, od)
			}
		}
		if len(s.acq) > len(out.acq) {
			out.acq = s.acq
		}
		out.pc = Or(c, out.pc)
	}
	out.pc = u.define(out.pc, "pc")
	return out
}

func orInt(t types.Type) types.Type {
	if t == nil {
		return types.Typ[types.Int]
	}
	return t
}

func splitPath(k string) []string {
	if k == "" {
		return nil
	}
	return strings.Split(k, ".")
}

func sameMap(a, b map[string]Val) bool {
	if len(a) != len(b) {
		return false
	}
	for k, v := range a {
		if b[k] != v {
			return false
		}
	}
	return true
}

func sameDefers(a, b []*DeferRec) bool {
	if len(a) != len(b) {
		return false
	}
	for i := range a {
		if a[i] != b[i] {
			return false
		}
	}
	return true
}

func mergeDefers(c Term, a, b []*DeferRec) []*DeferRec {
	// entries are identified by instruction; order by first appearance
	var out []*DeferRec
	seen := map[*ssa.Defer]bool{}
	find := func(l []*DeferRec, in *ssa.Defer) *DeferRec {
		for _, d := range l {
			if d.Instr == in {
				return d
			}
		}
		return nil
	}
	for _, l := range [][]*DeferRec{a, b} {
		for _, d := range l {
			if seen[d.Instr] {
				continue
			}
			seen[d.Instr] = true
			da, db := find(a, d.Instr), find(b, d.Instr)
			ga, gb := TFalse, TFalse
			if da != nil {
				ga = da.Guard
			}
			if db != nil {
				gb = db.Guard
			}
			out = append(out, &DeferRec{Guard: Ite(c, ga, gb), Call: d.Call, Instr: d.Instr, Args: d.Args, Fn: d.Fn})
		}
	}
	return out
}

func unionKeys[V any](a, b map[string]V) []string {
	m := map[string]bool{}
	for k := range a {
		m[k] = true
	}
	for k := range b {
		m[k] = true
	}
	ks := make([]string, 0, len(m))
	for k := range m {
		ks = append(ks, k)
	}
	sort.Strings(ks)
	return ks
}

func (u *Unit) ghostDefault(k string) Term {
	switch {
	case strings.HasPrefix(k, "held:"):
		return Term{"((as const (Array Int Int)) 0)", SArrInt}
	case k == "cancelled" || strings.HasPrefix(k, "once:"):
		if t, ok := u.initArrays[k]; ok {
			return t
		}
		t := u.fresh(SArrBool, sanitize(k)+"0")
		u.initArrays[k] = t
		return t
	case strings.HasPrefix(k, "g:"):
		if s, ok := u.ghostSort[k[2:]]; ok {
			switch s {
			case SBool:
				return TFalse
			case SReal:
				return Term{"0.0", SReal}
			}
		}
	}
	return TZero
}

// ---------------------------------------------------------------- CFG

func (u *Unit) analyse(fn *ssa.Function) (map[*ssa.BasicBlock]*loopInfo, []*ssa.BasicBlock) {
	loops := map[*ssa.BasicBlock]*loopInfo{}
	for _, b := range fn.Blocks {
		for _, s := range b.Succs {
			if s.Dominates(b) {
				li := loops[s]
				if li == nil {
					li = &loopInfo{head: s, body: map[*ssa.BasicBlock]bool{s: true}}
					loops[s] = li
				}
				li.backs = append(li.backs, b)
				// natural loop body
				work := []*ssa.BasicBlock{b}
				for len(work) > 0 {
					x := work[len(work)-1]
					work = work[:len(work)-1]
					if li.body[x] {
						continue
					}
					li.body[x] = true
					work = append(work, x.Preds...)
				}
			}
		}
	}
	var heads []*ssa.BasicBlock
	for h := range loops {
		heads = append(heads, h)
	}
	sort.Slice(heads, func(i, j int) bool { return heads[i].Index < heads[j].Index })
	for i, h := range heads {
		loops[h].ordinal = i
	}
	// topological order ignoring back edges
	var order []*ssa.BasicBlock
	seen := map[*ssa.BasicBlock]bool{}
	var dfs func(b *ssa.BasicBlock)
	dfs = func(b *ssa.BasicBlock) {
		seen[b] = true
		for _, s := range b.Succs {
			if !seen[s] && !s.Dominates(b) {
				dfs(s)
			}
		}
		order = append(order, b)
	}
	if len(fn.Blocks) > 0 {
		dfs(fn.Blocks[0])
	}
	for i, j := 0, len(order)-1; i < j; i, j = i+1, j-1 {
		order[i], order[j] = order[j], order[i]
	}
	return loops, order
}

type exitRec struct {
	st  *State
	ret Val
}

// execFunction runs fn's body from state st with parameters bound in fr.
// It returns the merged state at return and the merged result.
func (u *Unit) execFunction(fr *Frame, st *State) (*State, Val) {
	fr.loops, fr.order = u.analyse(fr.fn)
	u.curFn = append(u.curFn, fr.key)
	defer func() { u.curFn = u.curFn[:len(u.curFn)-1] }()
	var exits []exitRec
	all := map[*ssa.BasicBlock]bool{}
	for _, b := range fr.fn.Blocks {
		all[b] = true
	}
	u.execRegion(fr, all, fr.fn.Blocks[0], []edgeState{{nil, st}}, nil, &exits)
	if len(exits) == 0 {
		return nil, nil
	}
	var ins []edgeState
	for _, e := range exits {
		ins = append(ins, edgeState{nil, e.st})
	}
	var ret Val
	for i := len(exits) - 1; i >= 0; i-- {
		if exits[i].ret == nil {
			continue
		}
		if ret == nil {
			ret = exits[i].ret
		} else {
			ret = u.defineVal(u.mergeVals(exits[i].st.pc, exits[i].ret, ret), "ret")
		}
	}
	return u.mergeStates(ins), ret
}

// execRegion executes the blocks of region (a function body or a loop
// body) in topological order starting at head. Edges leaving the region
// are reported through outEdges; back edges to head through backEdges.
func (u *Unit) execRegion(fr *Frame, region map[*ssa.BasicBlock]bool, head *ssa.BasicBlock, incoming []edgeState,
	outEdges func(from, to *ssa.BasicBlock, st *State), exits *[]exitRec) (backs []edgeState) {

	pending := map[*ssa.BasicBlock][]edgeState{head: incoming}
	done := map[*ssa.BasicBlock]bool{}
	deliver := func(from, to *ssa.BasicBlock, st *State) {
		if st.pc.IsFalse() {
			return
		}
		if to == head && from != nil && head.Dominates(from) && region[from] {
			backs = append(backs, edgeState{from, st})
			return
		}
		if !region[to] {
			if outEdges != nil {
				outEdges(from, to, st)
			}
			return
		}
		pending[to] = append(pending[to], edgeState{from, st})
	}
	for _, b := range fr.order {
		if !region[b] || done[b] {
			continue
		}
		ins := pending[b]
		if len(ins) == 0 {
			continue
		}
		if li, isLoop := fr.loops[b]; isLoop && b != head {
			// nested loop: handled as a unit
			u.execLoop(fr, li, ins, deliver, exits)
			for x := range li.body {
				done[x] = true
			}
			continue
		}
		done[b] = true
		st := u.enterBlock(fr, b, ins)
		u.execBlock(fr, b, st, deliver, exits)
	}
	return backs
}

// enterBlock merges incoming edges and evaluates phis.
func (u *Unit) enterBlock(fr *Frame, b *ssa.BasicBlock, ins []edgeState) *State {
	// phis first (they read values along each edge)
	for _, in := range b.Instrs {
		phi, ok := in.(*ssa.Phi)
		if !ok {
			break
		}
		var val Val
		for i := len(ins) - 1; i >= 0; i-- {
			e := ins[i]
			var ev Val
			for k, p := range b.Preds {
				if p == e.from {
					ev = u.get(fr, phi.Edges[k])
					break
				}
			}
			if ev == nil {
				continue
			}
			if val == nil {
				val = ev
			} else {
				val = u.mergeVals(e.st.pc, ev, val)
			}
		}
		if sc, ok := val.(*Scalar); ok {
			val = &Scalar{T: u.define(sc.T, "phi_"+phi.Comment), Typ: phi.Type(), Origin: sc.Origin, Aux: sc.Aux, Allocs: sc.Allocs, Keys: sc.Keys}
		}
		fr.vals[phi] = val
	}
	st := u.mergeStates(ins)
	if len(ins) == 1 {
		st = st.clone()
	}
	return st
}

func (u *Unit) execLoop(fr *Frame, li *loopInfo, ins []edgeState, deliver func(from, to *ssa.BasicBlock, st *State), exits *[]exitRec) {
	var spec *LoopSpec
	if fr.hooks != nil && fr.fn == u.root {
		spec = fr.hooks.Loops[li.ordinal]
	} else if fc := u.eng.cs.Funcs[fr.key]; fc != nil {
		spec = fc.Loops[li.ordinal]
	}
	out := func(from, to *ssa.BasicBlock, st *State) { deliver(from, to, st) }
	if u.canUnroll(fr, li) {
		cur := ins
		for iter := 0; iter < 64 && len(cur) > 0; iter++ {
			cur = u.execRegionLoop(fr, li, cur, out, exits)
		}
		if len(cur) > 0 {
			u.note("loop %d of %s: unrolling limit reached", li.ordinal, fr.key)
		}
		return
	}
	// invariant-based cut
	st := u.enterBlock(fr, li.head, ins)
	where := u.eng.pos(firstPos(li.head))
	u.checkInvariants(fr, st, spec, li, "entry", where)
	// havoc: loop-carried phis, heap, cells written in the loop, ghost vars
	for _, in := range li.head.Instrs {
		phi, ok := in.(*ssa.Phi)
		if !ok {
			break
		}
		// a phi whose back-edge operands are the phi itself is loop-invariant
		invariant := true
		for k, p := range li.head.Preds {
			if li.body[p] && li.head.Dominates(p) && phi.Edges[k] != ssa.Value(phi) {
				invariant = false
			}
		}
		if invariant {
			continue
		}
		fr.vals[phi] = u.freshVal(phi.Type(), "loop_"+phi.Comment, st.pc)
		if strings.HasPrefix(li.head.Comment, "rangeindex.loop") && isInteger(phi.Type()) {
			// the index of a range over a slice, array or string runs from -1 to len-1
			if sc, ok := fr.vals[phi].(*Scalar); ok {
				for _, e := range phi.Edges {
					if c, ok := e.(*ssa.Const); ok && c.Value != nil && c.Int64() == -1 {
						u.assume(st.pc, And(Cmp(">=", sc.T, IntLit(-1)), Cmp("<=", sc.T, BigLit("4611686018427387904"))))
					}
				}
			}
		}
	}
	u.havocHeap(st, nil, "loop")
	// every local the frame knows, also one that still holds its zero value (it has no entry in st.cells yet)
	known := map[*Cell]bool{}
	for c := range st.cells {
		known[c] = true
	}
	for _, v := range fr.vals {
		if p, ok := v.(*PtrV); ok && p.Cell != nil && !strings.HasPrefix(p.Cell.Name, "G:") && !strings.HasPrefix(p.Cell.Name, "table:") {
			known[p.Cell] = true
		}
	}
	for c := range known {
		if u.cellWrittenIn(li, c, fr) {
			m := map[string]Val{}
			u.leaves(c.Typ, nil, func(path []string, lt types.Type) {
				m[strings.Join(path, ".")] = u.freshVal(lt, "loopcell", st.pc)
			})
			st.cells[c] = m
		}
	}
	for k := range st.ghost {
		if strings.HasPrefix(k, "g:") || strings.HasPrefix(k, "calls:") || strings.HasPrefix(k, "scalls:") {
			// a ghost that no hook can set from inside the loop (every hook that sets it waits for a call the loop
			// body, with what it inlines and spawns, cannot make) keeps its value across the cut
			if strings.HasPrefix(k, "g:") && u.ghostStableIn(li, fr, k[2:]) {
				continue
			}
			sort := SInt
			if strings.HasPrefix(k, "g:") {
				sort = u.ghostSort[k[2:]]
			}
			st.ghost[k] = u.fresh(sort, "loop_"+sanitize(k))
		}
	}
	if fr.hooks != nil {
		for _, g := range fr.hooks.Ghosts {
			if _, ok := st.ghost["g:"+g.Name]; !ok && !u.ghostStableIn(li, fr, g.Name) {
				st.ghost["g:"+g.Name] = u.fresh(g.Sort, "loop_g_"+g.Name)
			}
		}
	}
	u.assumeInvariants(fr, st, spec, li)
	headSnapshot := st.clone()
	u.loopMarks = append(u.loopMarks, u.cells)
	defer func() { u.loopMarks = u.loopMarks[:len(u.loopMarks)-1] }()
	u.allocMarks = append(u.allocMarks, u.allocs)
	defer func() { u.allocMarks = u.allocMarks[:len(u.allocMarks)-1] }()
	u.execBlockAsHead(fr, li, st, out, exits, func(backs []edgeState) {
		for _, bk := range backs {
			// evaluate the phi values along the back edge
			saved := map[*ssa.Phi]Val{}
			for _, in := range li.head.Instrs {
				phi, ok := in.(*ssa.Phi)
				if !ok {
					break
				}
				saved[phi] = fr.vals[phi]
				for k, p := range li.head.Preds {
					if p == bk.from {
						fr.vals[phi] = u.get(fr, phi.Edges[k])
					}
				}
			}
			u.event(fr, bk.st, fmt.Sprintf("backedge %d", li.ordinal), nil, where)
			u.checkInvariants(fr, bk.st, spec, li, "preserved", where)
			// lock balance
			for k, v := range bk.st.ghost {
				if strings.HasPrefix(k, "nheld:") {
					u.oblige("lock.loop_balanced", []string{"C09"}, "", bk.st.pc, Eq(v, u.nheld(headSnapshot, k[6:])), where, "")
				}
			}
			if spec != nil && spec.Decreases != nil {
				// variant: decreases and stays >= 0
				envOld := u.newEnv(fr, headSnapshot, nil)
				for phi, v := range saved {
					envOld.vars[phi.Comment] = v
				}
				before := u.evalTerm(envOld, spec.Decreases)
				after := u.evalTerm(u.newEnv(fr, bk.st, nil), spec.Decreases)
				u.oblige("termination.decreases", []string{"C13"}, fmt.Sprintf("loop%d", li.ordinal), bk.st.pc, And(Cmp("<", after, before), Cmp(">=", before, TZero)), where, "")
			}
			for phi, v := range saved {
				fr.vals[phi] = v
			}
		}
	})
}

func firstPos(b *ssa.BasicBlock) token.Pos {
	for _, in := range b.Instrs {
		if in.Pos().IsValid() {
			return in.Pos()
		}
	}
	for _, s := range b.Succs {
		for _, in := range s.Instrs {
			if in.Pos().IsValid() {
				return in.Pos()
			}
		}
	}
	return token.NoPos
}

// execBlockAsHead runs the loop body starting at the (already entered) head.
func (u *Unit) execBlockAsHead(fr *Frame, li *loopInfo, st *State, out func(from, to *ssa.BasicBlock, st *State), exits *[]exitRec, onBacks func([]edgeState)) {
	var backs []edgeState
	pending := map[*ssa.BasicBlock][]edgeState{}
	done := map[*ssa.BasicBlock]bool{li.head: true}
	deliver := func(from, to *ssa.BasicBlock, s *State) {
		if s.pc.IsFalse() {
			return
		}
		if to == li.head {
			backs = append(backs, edgeState{from, s})
			return
		}
		if !li.body[to] {
			out(from, to, s)
			return
		}
		pending[to] = append(pending[to], edgeState{from, s})
	}
	u.execBlock(fr, li.head, st, deliver, exits)
	for _, b := range fr.order {
		if !li.body[b] || done[b] {
			continue
		}
		ins := pending[b]
		if len(ins) == 0 {
			continue
		}
		if inner, isLoop := fr.loops[b]; isLoop {
			u.execLoop(fr, inner, ins, deliver, exits)
			for x := range inner.body {
				done[x] = true
			}
			continue
		}
		done[b] = true
		s := u.enterBlock(fr, b, ins)
		u.execBlock(fr, b, s, deliver, exits)
	}
	onBacks(backs)
}

// execRegionLoop performs one unrolled iteration; returns the back-edge states.
func (u *Unit) execRegionLoop(fr *Frame, li *loopInfo, ins []edgeState, out func(from, to *ssa.BasicBlock, st *State), exits *[]exitRec) []edgeState {
	st := u.enterBlock(fr, li.head, ins)
	var res []edgeState
	u.execBlockAsHead(fr, li, st, out, exits, func(backs []edgeState) { res = backs })
	return res
}

// canUnroll: loops whose trip count is a literal (range over a composite
// literal of constant length) are unrolled completely.
func (u *Unit) canUnroll(fr *Frame, li *loopInfo) bool {
	// the head must compare an index phi against the length of a slice
	// whose backing array is a constant-length local array
	for _, in := range li.head.Instrs {
		if bo, ok := in.(*ssa.BinOp); ok && bo.Op == token.LSS {
			// an index loop over an array: the bound is the array's length, a small constant
			if c, ok := bo.Y.(*ssa.Const); ok && c.Value != nil && c.Int64() >= 0 && c.Int64() <= 16 && countedLoop(li) {
				return true
			}
			if call, ok := bo.Y.(*ssa.Call); ok {
				if b, ok := call.Call.Value.(*ssa.Builtin); ok && b.Name() == "len" {
					// dynamically: the slice value is backed by a constant-length local array
					// (also when the loop lives in an inlined helper that receives the slice)
					if fr != nil && fr.vals != nil {
						if v, ok := fr.vals[call.Call.Args[0]]; ok {
							if sv, ok := v.(*SliceV); ok && sv.Cell != nil {
								return true
							}
						}
					}
					if sl, ok := call.Call.Args[0].(*ssa.Slice); ok {
						if al, ok := sl.X.(*ssa.Alloc); ok {
							if _, ok := al.Type().(*types.Pointer).Elem().Underlying().(*types.Array); ok {
								return true
							}
						}
					}
				}
			}
		}
	}
	return false
}

func (u *Unit) cellWrittenIn(li *loopInfo, c *Cell, fr *Frame) bool {
	for b := range li.body {
		for _, in := range b.Instrs {
			if s, ok := in.(*ssa.Store); ok {
				if p, ok := fr.vals[s.Addr].(*PtrV); ok && p.Cell == c {
					return true
				}
				// address not yet evaluated: compare the root alloc by name
				if rootAlloc(s.Addr) != nil && rootAlloc(s.Addr).Comment == c.Name && c.Name != "" {
					return true
				}
			}
			if call, ok := in.(*ssa.Call); ok {
				// cells whose address is passed to a call in the loop
				for _, a := range call.Call.Args {
					if ra := rootAlloc(a); ra != nil && ra.Comment == c.Name && c.Name != "" {
						return true
					}
				}
			}
		}
	}
	return false
}

func rootAlloc(v ssa.Value) *ssa.Alloc {
	for {
		switch x := v.(type) {
		case *ssa.Alloc:
			return x
		case *ssa.FieldAddr:
			v = x.X
		case *ssa.IndexAddr:
			v = x.X
		default:
			return nil
		}
	}
}

func (u *Unit) checkInvariants(fr *Frame, st *State, spec *LoopSpec, li *loopInfo, phase, where string) {
	if spec == nil {
		return
	}
	env := u.newEnv(fr, st, u.entry)
	u.bindHeadPhis(env, fr, li)
	for _, c := range spec.Invariants {
		g := u.evalBool(env, c.Expr)
		u.oblige(c.FullLabel()+"."+phase, propList(c.Prop), fmt.Sprintf("loop%d", li.ordinal), st.pc, g, where, c.Src)
	}
}

func (u *Unit) assumeInvariants(fr *Frame, st *State, spec *LoopSpec, li *loopInfo) {
	if spec == nil {
		return
	}
	env := u.newEnv(fr, st, u.entry)
	u.bindHeadPhis(env, fr, li)
	for _, c := range spec.Invariants {
		u.assume(st.pc, u.evalBool(env, c.Expr))
	}
	u.covers = append(u.covers, coverPoint{fmt.Sprintf("loopinv@%s#%d", fr.key, li.ordinal), st.pc, len(u.lines)})
}

// bindHeadPhis makes the loop-carried variables of this loop visible under
// their source names.
func (u *Unit) bindHeadPhis(env *Env, fr *Frame, li *loopInfo) {
	for _, in := range li.head.Instrs {
		phi, ok := in.(*ssa.Phi)
		if !ok {
			break
		}
		if v, ok := fr.vals[phi]; ok && phi.Comment != "" {
			env.vars[phi.Comment] = v
		}
	}
	// $v: the loop-carried variable, when there is exactly one (keeps
	// invariants independent of the local's name)
	var varying []*ssa.Phi
	for _, in := range li.head.Instrs {
		phi, ok := in.(*ssa.Phi)
		if !ok {
			break
		}
		for k, p := range li.head.Preds {
			if li.body[p] && li.head.Dominates(p) && phi.Edges[k] != ssa.Value(phi) {
				varying = append(varying, phi)
				break
			}
		}
	}
	if len(varying) == 1 {
		if v, ok := fr.vals[varying[0]]; ok {
			env.vars["$v"] = v
		}
	}
}

func propList(p string) []string {
	if p == "" {
		return nil
	}
	return strings.Split(p, "+")
}

// ---------------------------------------------------------------- blocks

func (u *Unit) execBlock(fr *Frame, b *ssa.BasicBlock, st *State, deliver func(from, to *ssa.BasicBlock, st *State), exits *[]exitRec) {
	for _, in := range b.Instrs {
		if st.pc.IsFalse() {
			return
		}
		switch x := in.(type) {
		case *ssa.Phi:
			continue
		case *ssa.If:
			c := u.boolOf(u.get(fr, x.Cond))
			t := st.clone()
			t.pc = u.define(And(st.pc, c), "pc")
			f := st
			f.pc = u.define(And(st.pc, Not(c)), "pc")
			deliver(b, b.Succs[0], t)
			deliver(b, b.Succs[1], f)
			return
		case *ssa.Jump:
			deliver(b, b.Succs[0], st)
			return
		case *ssa.Return:
			var ret Val
			switch len(x.Results) {
			case 0:
			case 1:
				ret = u.get(fr, x.Results[0])
			default:
				tv := &TupleV{}
				for _, r := range x.Results {
					tv.Vs = append(tv.Vs, u.get(fr, r))
				}
				ret = tv
			}
			*exits = append(*exits, exitRec{st, ret})
			return
		case *ssa.Panic:
			u.oblige("nopanic.explicit", u.panicProps(), "", st.pc, TFalse, u.eng.pos(x.Pos()), "explicit panic reachable")
			return
		default:
			u.execInstr(fr, st, in)
		}
	}
}

func (u *Unit) boolOf(v Val) Term {
	if s, ok := v.(*Scalar); ok {
		if s.T.Sort == SBool {
			return s.T
		}
		return Not(Eq(s.T, TZero))
	}
	return TTrue
}

func (u *Unit) termOf(v Val) Term {
	if t, ok := valTerm(v); ok {
		return t
	}
	switch x := v.(type) {
	case *ClosureV:
		return u.closureID(x)
	case *MapV:
		return Ite(u.mapNil(nil, x), TZero, IntLit(1))
	case *PtrV:
		if x.Cell != nil {
			return IntLit(int64(-100000 - x.Cell.ID))
		}
		return x.Base
	case nil:
		return TZero
	}
	u.note("termOf on %T", v)
	return u.fresh(SInt, "opaque")
}

// ---------------------------------------------------------------- maps stored in fields

// MapV is a Go map held in a field of a heap object. Its contents are two
// arrays per owning object (presence and value), plus a nil flag.
type MapV struct {
	Base Term
	Key  string
	Typ  types.Type
	st   *State
}

func (u *Unit) mapArrs(st *State, m *MapV) (has, val, isnil Term) {
	has = u.heapArr(st, m.Key+"#has", SArrBool)
	val = u.heapArr(st, m.Key+"#val", SArrInt)
	isnil = u.heapArr(st, m.Key+"#nil", SBool)
	return
}

func (u *Unit) mapNil(st *State, m *MapV) Term {
	if st == nil {
		st = u.curState
	}
	if st == nil {
		return u.fresh(SBool, "mapnil")
	}
	_, _, n := u.mapArrs(st, m)
	return SelectA(n, m.Base)
}

func (u *Unit) mapLookup(st *State, m *MapV, k Term) (Term, Term) {
	has, val, isnil := u.mapArrs(st, m)
	// a nil map has no entries
	return SelectA(SelectA(val, m.Base), k), And(Not(SelectA(isnil, m.Base)), SelectA(SelectA(has, m.Base), k))
}

func (u *Unit) mapStore(st *State, m *MapV, k, v Term, present Term) {
	has, val, _ := u.mapArrs(st, m)
	st.heap[m.Key+"#has"] = u.define(StoreA(has, m.Base, StoreA(SelectA(has, m.Base), k, present)), "Mh")
	if !present.IsFalse() {
		st.heap[m.Key+"#val"] = u.define(StoreA(val, m.Base, StoreA(SelectA(val, m.Base), k, v)), "Mv")
	}
}

// storeMapField: field = make(map...) | nil | another map field
func (u *Unit) storeMapField(st *State, base Term, key string, v Val) {
	m := &MapV{Base: base, Key: key}
	has, val, isnil := u.mapArrs(st, m)
	switch x := v.(type) {
	case *MapV:
		h2, v2, n2 := u.mapArrs(st, x)
		st.heap[key+"#has"] = u.define(StoreA(has, base, SelectA(h2, x.Base)), "Mh")
		st.heap[key+"#val"] = u.define(StoreA(val, base, SelectA(v2, x.Base)), "Mv")
		st.heap[key+"#nil"] = u.define(StoreA(isnil, base, SelectA(n2, x.Base)), "Mn")
	case *Scalar:
		if x.Origin == "map" {
			// fresh empty map
			st.heap[key+"#has"] = u.define(StoreA(has, base, Term{"((as const (Array Int Bool)) false)", SArrBool}), "Mh")
			st.heap[key+"#nil"] = u.define(StoreA(isnil, base, TFalse), "Mn")
			return
		}
		// nil (or unknown) map
		st.heap[key+"#nil"] = u.define(StoreA(isnil, base, Eq(x.T, TZero)), "Mn")
		st.heap[key+"#has"] = u.define(StoreA(has, base, u.fresh(SArrBool, "maphas")), "Mh")
	}
}

// ghostStableIn: no hook of the unit (or of the always block) that sets ghost name can fire inside loop li. Only hooks
// on calls and returns of named callees are judged; a hook on any other kind of event (loads, stores, locks, channel
// operations, ...) is taken to fire.
func (u *Unit) ghostStableIn(li *loopInfo, fr *Frame, name string) bool {
	var hooks []*Hook
	if al := u.eng.cs.Always; al != nil {
		for i := range al.Hooks {
			hooks = append(hooks, &al.Hooks[i])
		}
	}
	if u.fc != nil {
		for i := range u.fc.Hooks {
			hooks = append(hooks, &u.fc.Hooks[i])
		}
	}
	sets := false
	for _, h := range hooks {
		if h.Set != name {
			continue
		}
		sets = true
		i := strings.Index(h.Event, " ")
		if i < 0 {
			return false
		}
		kind, target := h.Event[:i], h.Event[i+1:]
		if kind != "call" && kind != "ret" {
			return false
		}
		last := target
		if j := strings.LastIndex(last, "."); j >= 0 {
			last = last[j+1:]
		}
		seen := map[*ssa.Function]bool{}
		for b := range li.body {
			if u.blockMayCall(b.Instrs, last, seen, 8) {
				return false
			}
		}
	}
	return sets
}

// blockMayCall: some call in the instructions (or in what they may run: package functions, function literals,
// goroutines, deferred calls) is to a function or method whose name is last.
func (u *Unit) blockMayCall(instrs []ssa.Instruction, last string, seen map[*ssa.Function]bool, depth int) bool {
	var visit func(fn *ssa.Function, depth int) bool
	visit = func(fn *ssa.Function, depth int) bool {
		if fn == nil || seen[fn] || depth < 0 {
			return fn != nil && depth < 0
		}
		seen[fn] = true
		for _, b := range fn.Blocks {
			if u.blockMayCall(b.Instrs, last, seen, depth) {
				return true
			}
		}
		return false
	}
	for _, in := range instrs {
		if mc, ok := in.(*ssa.MakeClosure); ok {
			if f, ok := mc.Fn.(*ssa.Function); ok && visit(f, depth-1) {
				return true
			}
		}
		ci, ok := in.(ssa.CallInstruction)
		if !ok {
			continue
		}
		cc := ci.Common()
		if cc.IsInvoke() {
			if cc.Method.Name() == last {
				return true
			}
			continue
		}
		if b, ok := cc.Value.(*ssa.Builtin); ok {
			if b.Name() == last {
				return true
			}
			continue
		}
		sc := cc.StaticCallee()
		if sc == nil {
			// a call through a function value: anything
			return true
		}
		if sc.Name() == last {
			return true
		}
		// only the functions of the library under verification (and of its store model) can reach the named callees;
		// a function of another package is judged by its own name alone
		// a function with a contract is called through the contract: what happens inside it raises no event here
		if fc := u.eng.cs.Funcs[u.eng.funcKey(sc)]; fc != nil && !fc.Flags["inline"] {
			continue
		}
		if sc.Blocks != nil && sc.Pkg != nil && (strings.HasSuffix(sc.Pkg.Pkg.Path(), "/leader") || strings.HasSuffix(sc.Pkg.Pkg.Path(), "internal/natsmock")) && visit(sc, depth-1) {
			return true
		}
	}
	return false
}
