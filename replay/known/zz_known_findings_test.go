package leader

// Replays of the findings listed in /verif/known_findings.json, run against
// the real code through `go test -overlay` (nothing is written into /repo).
// Every test FAILS when the defect it names reproduces and passes once the
// defect is gone. They use only hook points the library already offers
// (HealthChecker, Logger, Metrics, mock KeyValue functions, uuid.SetRand).

import (
	"runtime"
	"context"
	"encoding/json"
	"errors"
	"sync"
	"sync/atomic"
	"testing"
	"time"

	"github.com/ali-assar/NATS-Leader-Election/internal/natsmock"
	"github.com/google/uuid"
	"github.com/nats-io/nats.go"
	"github.com/prometheus/client_golang/prometheus"
	"go.uber.org/zap"
)

func kCfg() ElectionConfig {
	return ElectionConfig{Bucket: "b", Group: "g", InstanceID: "A", TTL: 3 * time.Second, HeartbeatInterval: 200 * time.Millisecond}
}

func kElectionOn(t *testing.T, nc *natsmock.MockConn, cfg ElectionConfig) (*kvElection, *natsmock.MockKeyValue) {
	t.Helper()
	el, err := NewElection(NewMockConnAdapter(nc), cfg)
	if err != nil {
		t.Fatal(err)
	}
	js, _ := nc.JetStream()
	kv, _ := js.KeyValue(cfg.Bucket)
	return el.(*kvElection), kv
}

func kElection(t *testing.T, cfg ElectionConfig) (*kvElection, *natsmock.MockKeyValue) {
	return kElectionOn(t, natsmock.NewMockConn(), cfg)
}

func kLeader(t *testing.T, e *kvElection) {
	t.Helper()
	if err := e.Start(context.Background()); err != nil {
		t.Fatal(err)
	}
	WaitForLeader(t, e, true, 2*time.Second)
}

type kEntry struct {
	v   []byte
	rev uint64
}

func (p kEntry) Key() string      { return "g" }
func (p kEntry) Value() []byte    { return p.v }
func (p kEntry) Revision() uint64 { return p.rev }

type kLogger struct {
	mu sync.Mutex
	on map[string]func()
}

func (l *kLogger) set(msg string, f func()) { l.mu.Lock(); l.on[msg] = f; l.mu.Unlock() }
func (l *kLogger) fire(msg string) {
	l.mu.Lock()
	f := l.on[msg]
	delete(l.on, msg)
	l.mu.Unlock()
	if f != nil {
		f()
	}
}
func (l *kLogger) Debug(msg string, f ...zap.Field) { l.fire(msg) }
func (l *kLogger) Info(msg string, f ...zap.Field)  { l.fire(msg) }
func (l *kLogger) Warn(msg string, f ...zap.Field)  { l.fire(msg) }
func (l *kLogger) Error(msg string, f ...zap.Field) { l.fire(msg) }
func (l *kLogger) Fatal(msg string, f ...zap.Field) { l.fire(msg) }

type kHealth struct{ fn atomic.Value }

func (h *kHealth) Check(ctx context.Context) bool {
	if f, ok := h.fn.Load().(func()); ok && f != nil {
		h.fn.Store(func() {})
		f()
	}
	return true
}

func kWithMonitor(e *kvElection) {
	e.connectionMonitor = NewNATSConnectionMonitor(&nats.Conn{})
	e.disconnectHandler = &disconnectHandler{election: e}
}

var _ = prometheus.Labels{}

// ---------------------------------------------------------------- C01

// C01.delete_by_current_owner: a shutting-down ex-owner deletes the record its successor wrote.
func TestKnown_C01_DeleteForeignRecord(t *testing.T) {
	e, kv := kElection(t, kCfg())
	kLeader(t, e)
	ent, _ := kv.Get("g")
	pb, _ := json.Marshal(leadershipPayload{ID: "B", Token: "tB", Priority: 9})
	if _, err := kv.Update("g", pb, ent.Revision()); err != nil { // B legitimately replaced A's record a moment ago
		t.Fatal(err)
	}
	_ = e.StopWithContext(context.Background(), StopOptions{DeleteKey: true})
	if _, err := kv.Get("g"); err != nil {
		t.Fatalf("VIOLATION-REPRODUCED: A's shutdown deleted the record owned by B (get: %v)", err)
	}
}

// The same against the real store (embedded NATS server, the library's own adapter): since the adapter offers a
// revision-checked delete, a stopping ex-owner no longer removes its successor's record.
func TestKnown_C01_DeleteForeignRecord_RealStore(t *testing.T) {
	ctx, cancel := context.WithCancel(context.Background())
	defer cancel()
	srv, err := StartEmbeddedNATSServer(ctx)
	if err != nil {
		t.Skipf("embedded server: %v", err)
	}
	defer func() { _ = StopEmbeddedNATSServer(srv) }()
	conn, err := nats.Connect(srv.ClientURL())
	if err != nil {
		t.Skipf("connect: %v", err)
	}
	defer conn.Close()
	if err := CreateKVBucket(conn, "kf-leaders", 10*time.Second); err != nil {
		t.Fatal(err)
	}
	defer func() { _ = CleanupKVBucket(conn, "kf-leaders") }()
	cfg := kCfg()
	cfg.Bucket = "kf-leaders"
	el, err := NewElectionWithConn(conn, cfg)
	if err != nil {
		t.Fatal(err)
	}
	e := el.(*kvElection)
	kLeader(t, e)
	js, _ := conn.JetStream()
	kv, _ := js.KeyValue("kf-leaders")
	pb, _ := json.Marshal(leadershipPayload{ID: "B", Token: "tB", Priority: 9})
	ent, err := kv.Get("g")
	if err != nil {
		t.Fatal(err)
	}
	// B legitimately replaces A's record; A has not noticed yet
	if _, err := kv.Update("g", pb, ent.Revision()); err != nil {
		t.Skipf("setup: B's takeover lost a race with A's heartbeat: %v", err)
	}
	_ = e.StopWithContext(context.Background(), StopOptions{DeleteKey: true})
	got, err := kv.Get("g")
	if err != nil || string(got.Value()) != string(pb) {
		t.Fatalf("VIOLATION-REPRODUCED: A's shutdown removed the record owned by B on the real store (get: %v)", err)
	}
}

// fieldinv(revision)/storepolicy(leaderID) at handleWatchEvent: an ex-leader's
// heartbeat refreshes the record of its successor with its own id and old token.
func TestKnown_C01_FollowerSideRevisionStore_WatchEvent(t *testing.T) {
	kForeignRefresh(t, func(e *kvElection, pb []byte, r1, r2 uint64) {
		e.handleWatchEvent(kEntry{v: pb, rev: r1}) // A sees B: steps down
		e.handleWatchEvent(kEntry{v: pb, rev: r2}) // A (follower) records B's revision
	})
}

// same through the periodic check
func TestKnown_C01_FollowerSideRevisionStore_PeriodicCheck(t *testing.T) {
	kForeignRefresh(t, func(e *kvElection, pb []byte, r1, r2 uint64) {
		e.handleWatchEvent(kEntry{v: pb, rev: r1}) // steps down (LeaderID still "A")
		e.checkKeyAndReelect(context.Background()) // records B's id and latest revision
	})
}

// same through the equal-or-higher-priority branch of the takeover attempt
func TestKnown_C01_FollowerSideRevisionStore_Takeover(t *testing.T) {
	kForeignRefresh(t, func(e *kvElection, pb []byte, r1, r2 uint64) {
		e.handleWatchEvent(kEntry{v: pb, rev: r1})
		own, _ := json.Marshal(leadershipPayload{ID: "A", Token: "x", Priority: 1})
		_ = e.attemptPriorityTakeover(own) // B has priority 9 >= 1: records B's revision
	})
}

func kForeignRefresh(t *testing.T, followerPath func(e *kvElection, pb []byte, r1, r2 uint64)) {
	cfg := kCfg()
	h := &kHealth{}
	cfg.HealthChecker = h
	cfg.Priority = 1
	e, kv := kElection(t, cfg)
	kLeader(t, e)
	fired := make(chan struct{})
	h.fn.Store(func() {
		// inside A's heartbeat tick, after its IsLeader() check
		ent, _ := kv.Get("g")
		pb, _ := json.Marshal(leadershipPayload{ID: "B", Token: "tB", Priority: 9})
		r1, err := kv.Update("g", pb, ent.Revision()) // B preempts A
		if err != nil {
			t.Errorf("B takeover: %v", err)
		}
		r2, _ := kv.Update("g", pb, r1) // B's first heartbeat
		followerPath(e, pb, r1, r2)
		close(fired)
	})
	select {
	case <-fired:
	case <-time.After(3 * time.Second):
		t.Fatal("schedule point not reached")
	}
	time.Sleep(150 * time.Millisecond)
	ent, _ := kv.Get("g")
	var p leadershipPayload
	_ = json.Unmarshal(ent.Value(), &p)
	e.Stop()
	if p.ID == "A" {
		t.Fatalf("VIOLATION-REPRODUCED: A, no longer leader, overwrote B's record with %s (rev %d)", ent.Value(), ent.Revision())
	}
}

// ---------------------------------------------------------------- C03

// C03.attempt_time_boxed: the diagnostic Get after a "revision mismatch" is a direct blocking store call.
func TestKnown_C03_DiagnosticGetNotTimeBoxed(t *testing.T) {
	e, kv := kElection(t, kCfg())
	kLeader(t, e)
	release := make(chan struct{})
	defer close(release)
	kv.SetGetFunc(func(key string) (natsmock.Entry, error) { <-release; return nil, errors.New("late") })
	kv.SetUpdateFunc(func(key string, value []byte, rev uint64, opts ...natsmock.KVOption) (uint64, error) {
		return 0, errors.New("revision mismatch")
	})
	// bound of the property: one interval plus two operation time-outs = 0.2 s + 2 * 1 s
	time.Sleep(2600 * time.Millisecond)
	if e.IsLeader() {
		t.Fatalf("VIOLATION-REPRODUCED: record replaced (update answers 'revision mismatch') but the instance still claims leadership after H + 2 time-outs: the heartbeat is stuck in an unbounded Get")
	}
}

// ---------------------------------------------------------------- C06

// C06.loop_ends_only_on_cancel: one failed Watch and the follower never elects again.
func TestKnown_C06_WatchFailureStallsFollower(t *testing.T) {
	nc := natsmock.NewMockConn()
	a, kv := kElectionOn(t, nc, kCfg())
	kLeader(t, a)
	cfgB := kCfg()
	cfgB.InstanceID = "B"
	b, _ := kElectionOn(t, nc, cfgB)
	kv.SetWatchFunc(func(key string, opts ...natsmock.WatchOption) (natsmock.Watcher, error) {
		return nil, errors.New("temporary watch failure")
	})
	_ = b.Start(context.Background())
	time.Sleep(300 * time.Millisecond)
	kv.SetWatchFunc(nil)
	_ = a.StopWithContext(context.Background(), StopOptions{DeleteKey: true})
	time.Sleep(2 * time.Second)
	lead := b.IsLeader()
	b.Stop()
	if !lead {
		t.Fatalf("VIOLATION-REPRODUCED: 2 s after the vacancy, with a healthy store, the only candidate is not leader (watcherRunning=%v)", b.watcherRunning.Load())
	}
}

// ---------------------------------------------------------------- C07 / C08

// C07.no_demotion_without_cause@attemptAcquireWithRetry: a leftover acquisition round deposes the leader.
func TestKnown_C07_LeftoverRoundDeposesLeader(t *testing.T) {
	e, _ := kElection(t, kCfg())
	var demotes atomic.Int32
	e.OnDemote(func() { demotes.Add(1) })
	kLeader(t, e)
	e.mu.RLock()
	ctx := e.ctx
	e.mu.RUnlock()
	e.attemptAcquireWithRetry(ctx) // what a late deletion event of the previous term starts
	lead := e.IsLeader()
	e.Stop()
	if !lead {
		t.Fatalf("VIOLATION-REPRODUCED: fault-free leader deposed by its own leftover acquisition round (OnDemote calls before Stop: %d)", demotes.Load())
	}
}

// C07.no_demotion_without_cause@Start$1: Start over a surviving claim demotes without a callback.
func TestKnown_C07_StartRoundDeposesLeader(t *testing.T) {
	e, _ := kElection(t, kCfg())
	var promotes, demotes atomic.Int32
	e.OnPromote(func(ctx context.Context, tok string) { promotes.Add(1) })
	e.OnDemote(func() { demotes.Add(1) })
	ctx, cancel := context.WithCancel(context.Background())
	if err := e.Start(ctx); err != nil {
		t.Fatal(err)
	}
	WaitForLeader(t, e, true, 2*time.Second)
	cancel()
	time.Sleep(300 * time.Millisecond)
	if err := e.Start(context.Background()); err != nil {
		t.Fatal(err)
	}
	time.Sleep(400 * time.Millisecond)
	lead, p, d := e.IsLeader(), promotes.Load(), demotes.Load()
	e.Stop()
	if !lead && p-d == 1 {
		t.Fatalf("VIOLATION-REPRODUCED: the instance stopped reporting leadership through the Start acquisition round without a demotion callback (promotes=%d demotes=%d)", p, d)
	}
}

// C07.no_demotion_without_cause@handleWatchEvent and C08@handleWatchEvent: a stale event deposes the leader silently.
func TestKnown_C07_StaleEventDeposesLeader(t *testing.T) {
	e, _ := kElection(t, kCfg())
	var demotes atomic.Int32
	e.OnDemote(func() { demotes.Add(1) })
	kLeader(t, e)
	time.Sleep(500 * time.Millisecond)
	own := e.Status().Revision
	e.handleWatchEvent(kEntry{v: []byte(`{"id":"OLD","token":"t0"}`), rev: 0})
	lead, d := e.IsLeader(), demotes.Load()
	e.Stop()
	if !lead {
		t.Fatalf("VIOLATION-REPRODUCED: event with revision 0 naming a previous leader deposed the leader at own revision %d; OnDemote calls=%d", own, d)
	}
}

func kDoubleDemote(t *testing.T, second func(e *kvElection, lg *kLogger)) {
	cfg := kCfg()
	lg := &kLogger{on: map[string]func(){}}
	cfg.Logger = lg
	e, _ := kElection(t, cfg)
	kWithMonitor(e)
	var n atomic.Int32
	e.OnDemote(func() { n.Add(1) })
	kLeader(t, e)
	second(e, lg)
	got := n.Load()
	e.Stop()
	if got != 1 {
		t.Fatalf("VIOLATION-REPRODUCED: one term, one loss of leadership, OnDemote invoked %d times", got)
	}
}

func TestKnown_C08_DoubleDemote_HeartbeatFailure(t *testing.T) {
	kDoubleDemote(t, func(e *kvElection, lg *kLogger) {
		e.handleValidationFailure(errors.New("validation"))
		e.handleHeartbeatFailure(errors.New("heartbeat"))
	})
}
func TestKnown_C08_DoubleDemote_ValidationFailure(t *testing.T) {
	kDoubleDemote(t, func(e *kvElection, lg *kLogger) {
		e.handleHeartbeatFailure(errors.New("heartbeat"))
		e.handleValidationFailure(errors.New("validation"))
	})
}
func TestKnown_C08_DoubleDemote_HealthFailure(t *testing.T) {
	kDoubleDemote(t, func(e *kvElection, lg *kLogger) {
		e.handleHeartbeatFailure(errors.New("heartbeat"))
		e.handleHealthCheckFailure()
	})
}
func TestKnown_C08_DoubleDemote_GraceExpiry(t *testing.T) {
	kDoubleDemote(t, func(e *kvElection, lg *kLogger) {
		e.connectionMonitor.SetStatus(ConnectionStatusDisconnected)
		// the other detector fires between the handler's leader check and its demotion
		lg.set("demoting_due_to_connection_loss", func() { e.handleHeartbeatFailure(errors.New("heartbeat")) })
		e.disconnectHandler.handleGracePeriodExpired(e.disconnectHandler.generation)
	})
}
func TestKnown_C08_DoubleDemote_ReconnectVerification(t *testing.T) {
	kDoubleDemote(t, func(e *kvElection, lg *kLogger) {
		lg.set("demoting_due_to_reconnect_verification_failure", func() { e.handleHeartbeatFailure(errors.New("heartbeat")) })
		e.handleReconnectVerificationFailed(errors.New("verify"))
	})
}

// C08.promote_from_non_leader: the record vanishes under a leader; its own deletion event promotes it again.
func TestKnown_C08_PromotedTwiceWithoutDemotion(t *testing.T) {
	e, kv := kElection(t, kCfg())
	var p, d atomic.Int32
	e.OnPromote(func(ctx context.Context, tok string) { p.Add(1) })
	e.OnDemote(func() { d.Add(1) })
	kLeader(t, e)
	_ = kv.Delete("g")
	e.handleWatchEvent(nil)
	time.Sleep(500 * time.Millisecond)
	pp, dd := p.Load(), d.Load()
	e.Stop()
	if pp-dd > 1 {
		t.Fatalf("VIOLATION-REPRODUCED: promotions=%d demotions=%d before Stop: promoted twice with no demotion in between", pp, dd)
	}
}

// ---------------------------------------------------------------- C09

// C09.nil_ctx@handleWatchEvent->go:attemptAcquireWithRetry: after a completed StopWithContext the election context is nil.
func TestKnown_C09_NilContextAcquireAfterStop(t *testing.T) {
	e, kv := kElection(t, kCfg())
	_, _ = kv.Create("g", []byte(`{"id":"X","token":"tx"}`))
	_ = e.Start(context.Background())
	WaitForLeader(t, e, false, time.Second)
	if err := e.StopWithContext(context.Background(), StopOptions{}); err != nil {
		t.Fatal(err)
	}
	// a deletion event delivered after the stop: before the repair this ran
	// `go e.attemptAcquireWithRetry(e.ctx)` with a nil context and the goroutine
	// panicked in ctx.Done() (which takes the whole test binary down)
	var creates atomic.Int32
	kv.SetCreateFunc(func(key string, value []byte, opts ...natsmock.KVOption) (uint64, error) {
		creates.Add(1)
		return 0, errors.New("key exists")
	})
	e.handleWatchEvent(nil)
	time.Sleep(300 * time.Millisecond)
	if creates.Load() != 0 {
		t.Fatalf("VIOLATION-REPRODUCED: a deletion event delivered after StopWithContext started an acquisition round")
	}
}

type kBlockingReader struct {
	entered chan struct{}
	release chan struct{}
	armed   atomic.Bool
}

func (r *kBlockingReader) Read(p []byte) (int, error) {
	if r.armed.CompareAndSwap(true, false) {
		close(r.entered)
		<-r.release
	}
	for i := range p {
		p[i] = byte(i*7 + 3)
	}
	return len(p), nil
}

// spawn.tracked (acquisition goroutines): Stop does not wait for them, so one of
// them issues a new store operation after Stop has returned.
func TestKnown_C09_UntrackedAcquireIssuesCreateAfterStop(t *testing.T) {
	e, kv := kElection(t, kCfg())
	_, _ = kv.Create("g", []byte(`{"id":"X","token":"tx"}`))
	_ = e.Start(context.Background())
	WaitForLeader(t, e, false, time.Second)
	time.Sleep(700 * time.Millisecond) // the Start round is over, the instance is a follower with a watch loop
	_ = kv.Delete("g")
	r := &kBlockingReader{entered: make(chan struct{}), release: make(chan struct{})}
	r.armed.Store(true)
	uuid.SetRand(r) // schedule point inside attemptAcquire, between the cancellation check and Create
	defer uuid.SetRand(nil)
	var stopReturned atomic.Bool
	var createdAfterStop atomic.Bool
	kv.SetCreateFunc(func(key string, value []byte, opts ...natsmock.KVOption) (uint64, error) {
		if stopReturned.Load() {
			createdAfterStop.Store(true)
		}
		return 0, errors.New("key exists")
	})
	e.handleWatchEvent(nil) // deletion event: go e.attemptAcquireWithRetry(e.ctx)
	select {
	case <-r.entered:
	case <-time.After(3 * time.Second):
		t.Skip("schedule point not reached")
	}
	// the goroutine is held at the schedule point for one second, well inside Stop's 5 s cap
	time.AfterFunc(time.Second, func() { close(r.release) })
	_ = e.Stop()
	stopReturned.Store(true)
	time.Sleep(1300 * time.Millisecond)
	if createdAfterStop.Load() {
		t.Fatalf("VIOLATION-REPRODUCED: Stop returned while an acquisition goroutine it does not track was still running; that goroutine then issued a Create on the store")
	}
}

// lockinv(mu).claim_implies_running@StopWithContext: a restart that overlaps the wait of
// StopWithContext has its fresh context set to nil by the tail of the old stop.
func TestKnown_C09_RestartDuringStopWithContextLosesContext(t *testing.T) {
	e, _ := kElection(t, kCfg())
	release := make(chan struct{})
	e.OnPromote(func(ctx context.Context, tok string) { <-release }) // keeps the wait group busy
	kLeader(t, e)
	stopped := make(chan error, 1)
	go func() { stopped <- e.StopWithContext(context.Background(), StopOptions{Timeout: 5 * time.Second}) }()
	WaitForCondition(t, func() bool { return e.Status().State == StateStopped }, 2*time.Second, "state STOPPED")
	if err := e.Start(context.Background()); err != nil { // restart while the old stop is still waiting
		t.Fatalf("restart refused: %v", err)
	}
	time.Sleep(300 * time.Millisecond)
	close(release)
	if err := <-stopped; err != nil {
		t.Fatalf("StopWithContext: %v", err)
	}
	st := e.Status().State
	err := e.Stop()
	if st != StateStopped && errors.Is(err, ErrAlreadyStopped) {
		t.Fatalf("VIOLATION-REPRODUCED: the restarted election is running (state %s) but its context was set to nil by the earlier StopWithContext: Stop() answers %v and its goroutines can no longer be stopped", st, err)
	}
}

// ---------------------------------------------------------------- C11

// C11.expiry_is_current: an expiry callback that fired for an earlier disconnect demotes before the grace period of the latest one.
func TestKnown_C11_StaleGraceExpiry(t *testing.T) {
	cfg := kCfg()
	cfg.DisconnectGracePeriod = 400 * time.Millisecond
	lg := &kLogger{on: map[string]func(){}}
	cfg.Logger = lg
	e, _ := kElection(t, cfg)
	kWithMonitor(e)
	kLeader(t, e)
	e.connectionMonitor.SetStatus(ConnectionStatusDisconnected)
	e.disconnectHandler.handleDisconnect() // t0
	time.Sleep(350 * time.Millisecond)
	lg.set("connection_disconnected", func() { time.Sleep(100 * time.Millisecond) }) // d.mu held; the old timer fires and queues
	t1 := time.Now()
	e.disconnectHandler.handleDisconnect() // latest disconnect notification
	time.Sleep(60 * time.Millisecond)
	since := time.Since(t1)
	lead := e.IsLeader()
	e.Stop()
	if !lead && since < 400*time.Millisecond {
		t.Fatalf("VIOLATION-REPRODUCED: demoted %v after the latest disconnect notification, grace period 400ms", since)
	}
}

// ---------------------------------------------------------------- C18 / C19 / C20

// lockinv(mu).claim_iff_state@Start: Start over a surviving claim.
func TestKnown_C18_StartOverSurvivingClaim(t *testing.T) {
	e, kv := kElection(t, kCfg())
	ctx, cancel := context.WithCancel(context.Background())
	_ = e.Start(ctx)
	WaitForLeader(t, e, true, 2*time.Second)
	cancel()
	time.Sleep(300 * time.Millisecond)
	hold := make(chan struct{})
	kv.SetCreateFunc(func(key string, value []byte, opts ...natsmock.KVOption) (uint64, error) { <-hold; return 0, errors.New("key exists") })
	_ = e.Start(context.Background())
	st := e.Status()
	close(hold)
	e.Stop()
	if st.IsLeader != (st.State == StateLeader) {
		t.Fatalf("VIOLATION-REPRODUCED: Status() right after the second Start: State=%s IsLeader=%v", st.State, st.IsLeader)
	}
}

// C03+C02.refreshes_end_only_with_the_term@heartbeatLoop: the caller of Start cancels its context
// instead of calling Stop; the refreshes end but the claim stands.
func TestKnown_C03_CancelledRunKeepsClaim(t *testing.T) {
	e, kv := kElection(t, kCfg())
	var d atomic.Int32
	e.OnDemote(func() { d.Add(1) })
	ctx, cancel := context.WithCancel(context.Background())
	_ = e.Start(ctx)
	WaitForLeader(t, e, true, 2*time.Second)
	cancel()
	time.Sleep(400 * time.Millisecond)
	_ = kv.Delete("g") // the record lapses: nobody refreshes it any more
	lead, dem := e.IsLeader(), d.Load()
	e.Stop()
	if lead || dem != 1 {
		t.Fatalf("VIOLATION-REPRODUCED: 400ms after the context given to Start was cancelled (heartbeat interval 200ms) the instance reports IsLeader=%v, OnDemote calls=%d; its record is gone", lead, dem)
	}
}

// C07+C12.loops_bound_to_the_term@becomeLeader: the heartbeat loop runs on the election context and leaves a
// term only at its own next tick. Re-elected within one interval, the instance has two loops in its new term: each
// refreshes with the revision the other is about to replace, and the loser takes "revision mismatch" for a
// takeover and deposes the healthy leader.
func TestKnown_C07_LeftoverHeartbeatLoopDeposesNextTerm(t *testing.T) {
	e, kv := kElection(t, kCfg()) // H = 200ms
	var d atomic.Int32
	e.OnDemote(func() { d.Add(1) })
	kLeader(t, e)
	// store latency 80ms (< H/2) on refreshes
	kv.SetUpdateFunc(func(key string, value []byte, rev uint64, opts ...natsmock.KVOption) (uint64, error) {
		time.Sleep(80 * time.Millisecond)
		kv.SetUpdateFunc(nil)
		r, err := kv.Update(key, value, rev)
		kvSlow(kv)
		return r, err
	})
	kvSlow = func(k *natsmock.MockKeyValue) {
		k.SetUpdateFunc(func(key string, value []byte, rev uint64, opts ...natsmock.KVOption) (uint64, error) {
			time.Sleep(80 * time.Millisecond)
			k.SetUpdateFunc(nil)
			r, err := k.Update(key, value, rev)
			kvSlow(k)
			return r, err
		})
	}
	// term 1 ends through the validation path (its heartbeat loop notices only at its next tick) ...
	e.handleValidationFailure(errors.New("validation"))
	// ... the record goes away and the same instance wins the key again well within one interval
	_ = kv.Delete("g")
	if err := e.attemptAcquire(); err != nil {
		t.Fatalf("re-acquisition failed: %v", err)
	}
	base := d.Load()
	time.Sleep(1500 * time.Millisecond) // fault-free from here on: several intervals
	lead, dem := e.IsLeader(), d.Load()-base
	e.Stop()
	if !lead || dem != 0 {
		t.Fatalf("VIOLATION-REPRODUCED: fault-free second term (store latency 80ms, H=200ms): IsLeader=%v after 1.5s, demotions during the term=%d", lead, dem)
	}
}

var kvSlow func(k *natsmock.MockKeyValue)

// nopanic.type_assert@logWithContext: the correlation id is taken from the caller's context with an unchecked type
// assertion; StopWithContext logs with the caller's context.
func TestKnown_C09_StopWithContextPanicsOnForeignCorrelationID(t *testing.T) {
	e, _ := kElection(t, kCfg())
	kLeader(t, e)
	type key = string
	ctx := context.WithValue(context.Background(), key("correlation_id"), 42) //nolint
	var rec interface{}
	func() {
		defer func() { rec = recover() }()
		_ = e.StopWithContext(ctx, StopOptions{})
	}()
	if rec != nil {
		_ = e.Stop()
		t.Fatalf("VIOLATION-REPRODUCED: StopWithContext panics when the caller's context carries a non-string correlation_id: %v", rec)
	}
}

// C13.one_acquisition_round_at_a_time: a live record with an empty value and a watch that ends at once. Every
// generation of the watch loop starts two acquisition rounds (the empty initial value, the closed channel), both
// fail against the live key, both settle as follower and each starts a new watch loop: the number of goroutines and
// of store operations doubles every half second.
func TestKnown_C13_EmptyRecordMultipliesRounds(t *testing.T) {
	e, kv := kElection(t, kCfg())
	if _, err := kv.Create("g", []byte{}); err != nil {
		t.Fatal(err)
	}
	var creates atomic.Int64
	kv.SetCreateFunc(func(key string, value []byte, opts ...natsmock.KVOption) (uint64, error) {
		creates.Add(1)
		return 0, errors.New("key already exists")
	})
	before := runtime.NumGoroutine()
	_ = e.Start(context.Background())
	time.Sleep(4 * time.Second)
	extra, ops := runtime.NumGoroutine()-before, creates.Load()
	e.Stop()
	// one instance, 4 s: a bounded implementation needs a handful of goroutines and at most ~4 attempts per 500 ms
	if extra > 60 || ops > 200 {
		t.Fatalf("VIOLATION-REPRODUCED: one follower facing a live empty record: %d extra goroutines and %d Create calls after 4s", extra, ops)
	}
}

// C11.expiry_demotes_unless_reconnected: after a disconnect the client gives the connection up ("closed"
// notification). That is no reconnect, but the expiry handler only demoted while the status was exactly
// Disconnected, so the grace period elapsed and the leader stayed.
func TestKnown_C11_ClosedConnectionBlocksGraceDemotion(t *testing.T) {
	cfg := kCfg()
	cfg.HeartbeatInterval = 100 * time.Millisecond
	cfg.DisconnectGracePeriod = 300 * time.Millisecond
	e, _ := kElection(t, cfg)
	kWithMonitor(e)
	var d atomic.Int32
	e.OnDemote(func() { d.Add(1) })
	kLeader(t, e)
	mon := e.connectionMonitor.(*natsConnectionMonitor)
	mon.OnDisconnect(e.disconnectHandler.handleDisconnect)
	mon.handleDisconnect(nil)
	mon.handleClosed(nil)
	time.Sleep(700 * time.Millisecond)
	lead, dem := e.IsLeader(), d.Load()
	e.Stop()
	if lead || dem != 1 {
		t.Fatalf("VIOLATION-REPRODUCED: disconnect, then closed, no reconnect: 700ms later (grace period 300ms) IsLeader=%v, OnDemote calls=%d", lead, dem)
	}
}

// C11.status_connected_only_if_still_reconnected: a second disconnect that arrives while the reconnect
// verification is reading is overwritten by the unconditional SetStatus(Connected) at the end of the verification;
// its grace timer then finds "Connected" and does nothing.
func TestKnown_C11_DisconnectDuringVerificationIsLost(t *testing.T) {
	cfg := kCfg()
	cfg.HeartbeatInterval = 100 * time.Millisecond
	cfg.DisconnectGracePeriod = 300 * time.Millisecond
	e, kv := kElection(t, cfg)
	kWithMonitor(e)
	var d atomic.Int32
	e.OnDemote(func() { d.Add(1) })
	kLeader(t, e)
	mon := e.connectionMonitor.(*natsConnectionMonitor)
	mon.OnDisconnect(e.disconnectHandler.handleDisconnect)
	mon.OnReconnect(e.handleReconnect)
	mon.handleDisconnect(nil)
	time.Sleep(50 * time.Millisecond)
	// the verification's reads take a moment; the connection drops again meanwhile
	entered := make(chan struct{}, 4)
	release := make(chan struct{})
	kv.SetGetFunc(func(key string) (natsmock.Entry, error) {
		select {
		case entered <- struct{}{}:
		default:
		}
		<-release
		kv.SetGetFunc(nil)
		return kv.Get(key)
	})
	mon.handleReconnect(nil)
	select {
	case <-entered:
	case <-time.After(2 * time.Second):
		t.Skip("verification read not reached")
	}
	mon.handleDisconnect(nil) // second disconnect: grace period runs from here
	close(release)
	time.Sleep(800 * time.Millisecond)
	lead, dem := e.IsLeader(), d.Load()
	e.Stop()
	if lead || dem != 1 {
		t.Fatalf("VIOLATION-REPRODUCED: second disconnect during the reconnect verification, no reconnect after it: 800ms later (grace period 300ms) IsLeader=%v, OnDemote calls=%d", lead, dem)
	}
}

// nopanic.nil_invoke(Entry)@attemptPriorityTakeover: a store may answer (nil, nil) for an absent key (the library's
// own NATS adapter passes a nil entry through); every other reader guards for it.
func TestKnown_C13_TakeoverOnNilEntry(t *testing.T) {
	cfg := kCfg()
	cfg.Priority = 5
	cfg.AllowPriorityTakeover = true
	e, kv := kElection(t, cfg)
	kv.SetGetFunc(func(key string) (natsmock.Entry, error) { return nil, nil })
	own, _ := json.Marshal(leadershipPayload{ID: "A", Token: "x", Priority: 5})
	var rec interface{}
	func() {
		defer func() { rec = recover() }()
		_ = e.attemptPriorityTakeover(own)
	}()
	if rec != nil {
		t.Fatalf("VIOLATION-REPRODUCED: attemptPriorityTakeover panics when the store answers (nil, nil): %v", rec)
	}
}

// C07.claim_published_last@becomeLeader: the claim (isLeader) was stored before the revision of the write that
// backs it. handleWatchEvent reads both without the mutex: a late notification of the previous owner's record that
// lands between the two stores passes "names another instance and is newer than my revision" and deposes the leader
// that has just been elected. The window is a few instructions wide, so the replay is statistical: a spinner delivers
// the stale notification while elections are started one after the other.
func TestKnown_C07_StaleEventBetweenClaimAndRevision(t *testing.T) {
	stale, _ := json.Marshal(leadershipPayload{ID: "old-leader", Token: "t-old", Priority: 0})
	hits := 0
	const trials = 6000
	for i := 0; i < trials && hits == 0; i++ {
		nc := natsmock.NewMockConn()
		cfg := kCfg()
		e, kv := kElectionOn(t, nc, cfg)
		// revisions 1..3 belonged to the previous owner; its record is gone by now
		for r := 0; r < 3; r++ {
			if r == 0 {
				_, _ = kv.Create("g", stale)
			} else {
				_, _ = kv.Update("g", stale, uint64(r))
			}
		}
		_ = kv.Delete("g")
		var demoted atomic.Int32
		e.OnDemote(func() { demoted.Add(1) })
		stop := make(chan struct{})
		var wg sync.WaitGroup
		wg.Add(1)
		go func() {
			defer wg.Done()
			for {
				select {
				case <-stop:
					return
				default:
					e.handleWatchEvent(kEntry{v: stale, rev: 3}) // late notification of the old owner's last write
				}
			}
		}()
		_ = e.Start(context.Background())
		deadline := time.Now().Add(200 * time.Millisecond)
		for !e.IsLeader() && demoted.Load() == 0 && time.Now().Before(deadline) {
			runtime.Gosched()
		}
		time.Sleep(200 * time.Microsecond)
		close(stop)
		wg.Wait()
		if demoted.Load() > 0 {
			hits++
		}
		_ = e.Stop()
	}
	if hits > 0 {
		t.Fatalf("VIOLATION-REPRODUCED: a freshly elected leader (own write at revision 4) was deposed by a late notification of revision 3 that landed between its claim and its revision store")
	}
}

// storepolicy(leaderID).leader_consistent_id: follower-side code overwrites leaderID outside the
// mutex after an unlocked IsLeader() check; a promotion that lands in between leaves a leader
// whose Status() names another instance.
func kLeaderIDRace(t *testing.T, followerPath func(e *kvElection, kv *natsmock.MockKeyValue, promote func())) {
	cfg := kCfg()
	cfg.Priority = 1
	cfg.AllowPriorityTakeover = true
	lg := &kLogger{on: map[string]func(){}}
	cfg.Logger = lg
	e, kv := kElection(t, cfg)
	pb, _ := json.Marshal(leadershipPayload{ID: "B", Token: "tB", Priority: 9})
	if _, err := kv.Create("g", pb); err != nil {
		t.Fatal(err)
	}
	_ = e.Start(context.Background())
	WaitForLeader(t, e, false, time.Second)
	time.Sleep(700 * time.Millisecond) // the Start round is over
	promote := func() { // B's record goes away and A wins the key, between A's leader check and its store
		_ = kv.Delete("g")
		if err := e.attemptAcquire(); err != nil {
			t.Errorf("promotion inside the window failed: %v", err)
		}
	}
	followerPath(e, kv, func() { lg.set("leader_changed", promote); lg.set("leader_changed_periodic_check", promote) })
	st := e.Status()
	e.Stop()
	if st.IsLeader && st.LeaderID != "A" {
		t.Fatalf("VIOLATION-REPRODUCED: Status() of the leader: IsLeader=%v State=%s LeaderID=%q (own id is A)", st.IsLeader, st.State, st.LeaderID)
	}
}

func TestKnown_C18_LeaderIDStoreRacesWithPromotion_WatchEvent(t *testing.T) {
	kLeaderIDRace(t, func(e *kvElection, kv *natsmock.MockKeyValue, arm func()) {
		pb, _ := json.Marshal(leadershipPayload{ID: "B", Token: "tB", Priority: 9})
		e.leaderID.Store("X") // A last knew X as leader
		arm()
		e.handleWatchEvent(kEntry{v: pb, rev: 1})
	})
}

func TestKnown_C18_LeaderIDStoreRacesWithPromotion_PeriodicCheck(t *testing.T) {
	kLeaderIDRace(t, func(e *kvElection, kv *natsmock.MockKeyValue, arm func()) {
		pb, _ := json.Marshal(leadershipPayload{ID: "B", Token: "tB", Priority: 9})
		e.leaderID.Store("X")
		arm()
		// the periodic check reads B's record, then logs, then stores
		kv.SetGetFunc(func(key string) (natsmock.Entry, error) {
			return &natsmock.MockEntryImpl{KeyVal: "g", ValueVal: pb, RevVal: 1}, nil
		})
		e.checkKeyAndReelect(context.Background())
		kv.SetGetFunc(nil)
	})
}

func TestKnown_C18_LeaderIDStoreRacesWithPromotion_Takeover(t *testing.T) {
	kLeaderIDRace(t, func(e *kvElection, kv *natsmock.MockKeyValue, arm func()) {
		pb, _ := json.Marshal(leadershipPayload{ID: "B", Token: "tB", Priority: 9})
		own, _ := json.Marshal(leadershipPayload{ID: "A", Token: "x", Priority: 1})
		var once sync.Once
		kv.SetGetFunc(func(key string) (natsmock.Entry, error) {
			// the read of the lost-takeover branch returns B's record; before A stores B's id, A wins the key
			once.Do(func() {
				kv.SetGetFunc(nil)
				_ = kv.Delete("g")
				_ = e.attemptAcquire()
			})
			return &natsmock.MockEntryImpl{KeyVal: "g", ValueVal: pb, RevVal: 1}, nil
		})
		_ = e.attemptPriorityTakeover(own)
	})
}

// C19.cancelled_on_demotion: the promotion context outlives the term.
func TestKnown_C19_PromoteContextSurvivesDemotion(t *testing.T) {
	e, _ := kElection(t, kCfg())
	got := make(chan context.Context, 1)
	e.OnPromote(func(ctx context.Context, tok string) { got <- ctx; <-ctx.Done() })
	kLeader(t, e)
	pc := <-got
	e.handleHeartbeatFailure(context.DeadlineExceeded)
	time.Sleep(300 * time.Millisecond)
	lead, err := e.IsLeader(), pc.Err()
	e.Stop()
	if !lead && err == nil {
		t.Fatalf("VIOLATION-REPRODUCED: demoted (IsLeader=false) but the promotion context is still live 300ms later")
	}
}

// guarded_by(kvElection.ctx).read: e.ctx is read for logging without the mutex while StopWithContext writes it.
// Run with -race; the race detector fails the test.
func TestKnown_C20_Race_CtxReadVsStopWithContext(t *testing.T) {
	e, kv := kElection(t, kCfg())
	_, _ = kv.Create("g", []byte(`{"id":"X","token":"tx"}`))
	_ = e.Start(context.Background())
	WaitForLeader(t, e, false, time.Second)
	time.Sleep(100 * time.Millisecond)
	kv.SetCreateFunc(func(key string, value []byte, opts ...natsmock.KVOption) (uint64, error) {
		return 0, errors.New("key exists")
	})
	e.mu.RLock()
	ctx := e.ctx
	e.mu.RUnlock()
	done := make(chan struct{})
	go func() { defer close(done); e.attemptAcquireWithRetry(ctx) }() // as the watcher does on a deletion event
	time.Sleep(150 * time.Millisecond)
	_ = e.StopWithContext(context.Background(), StopOptions{})
	<-done
}

type kStoppedHook struct {
	noOpMetrics
	mu      sync.Mutex
	armed   bool
	release chan struct{}
}

func (m *kStoppedHook) IncTransitions(labels prometheus.Labels) {
	if labels["to_state"] != StateStopped {
		return
	}
	m.mu.Lock()
	defer m.mu.Unlock()
	if m.armed {
		m.armed = false
		close(m.release)
	}
}

// C20.no_new_run_under_a_waiting_stop: a Start that overlaps a Stop added to the wait group from a zero counter
// while the stop's helper goroutine was in wg.Wait (pointed out by a sub-agent while seeding C20).
// Run with -race; the race detector fails the test.
func TestKnown_C20_Race_StartUnderWaitingStop(t *testing.T) {
	for round := 0; round < 12; round++ {
		hook := &kStoppedHook{release: make(chan struct{})}
		cfg := kCfg()
		cfg.Metrics = hook
		e, _ := kElection(t, cfg)
		if err := e.Start(context.Background()); err != nil {
			t.Fatal(err)
		}
		WaitForLeader(t, e, true, 2*time.Second)
		_ = e.Stop()
		hook.mu.Lock()
		hook.armed = true
		hook.mu.Unlock()
		restarted := make(chan error, 1)
		go func() {
			<-hook.release // the second Stop is inside its critical section
			restarted <- e.Start(context.Background())
		}()
		_ = e.Stop()
		if err := <-restarted; err != nil && err != ErrAlreadyStarted {
			t.Fatalf("restart: %v", err)
		}
		_ = e.Stop()
	}
}

// C18.follower_learns_the_owner_of_the_live_record@checkKeyAndReelect: a follower whose watch could not be set up
// has only the periodic check, and the periodic check recorded the record's owner only over a non-empty LeaderID:
// such a follower reported LeaderID "" for as long as the record lived.
func TestKnown_C18_PeriodicCheckNeverLearnsFirstLeader(t *testing.T) {
	e, kv := kElection(t, kCfg())
	if _, err := kv.Create("g", []byte(`{"id":"X","token":"tx"}`)); err != nil {
		t.Fatal(err)
	}
	kv.SetWatchFunc(func(key string, opts ...natsmock.WatchOption) (natsmock.Watcher, error) {
		return nil, errors.New("watch unavailable")
	})
	if err := e.Start(context.Background()); err != nil {
		t.Fatal(err)
	}
	defer e.Stop()
	time.Sleep(1800 * time.Millisecond) // three periodic checks
	st := e.Status()
	if st.State == StateFollower && st.LeaderID != "X" {
		t.Fatalf("VIOLATION-REPRODUCED: follower without a watch, live record names X, three periodic checks later LeaderID=%q", st.LeaderID)
	}
}

// C14.forwarder_gives_up_when_the_watch_is_stopped: the goroutine that forwards the NATS watcher's updates blocked for
// ever in its send when the consumer stopped reading with two deliveries pending (the initial value and the end-of-
// initial-values marker of a watch on an existing key are already two): one goroutine leaked per stopped watch
// (pointed out by a sub-agent while seeding C14).
func TestKnown_C14_ForwarderLeaksAfterStop(t *testing.T) {
	ctx, cancel := context.WithCancel(context.Background())
	defer cancel()
	srv, err := StartEmbeddedNATSServer(ctx)
	if err != nil {
		t.Skipf("embedded server: %v", err)
	}
	defer func() { _ = StopEmbeddedNATSServer(srv) }()
	conn, err := nats.Connect(srv.ClientURL())
	if err != nil {
		t.Skipf("connect: %v", err)
	}
	defer conn.Close()
	if err := CreateKVBucket(conn, "kf-watch", 10*time.Second); err != nil {
		t.Fatal(err)
	}
	defer func() { _ = CleanupKVBucket(conn, "kf-watch") }()
	js, _ := conn.JetStream()
	nkv, _ := js.KeyValue("kf-watch")
	if _, err := nkv.Create("g", []byte(`{"id":"X","token":"tx"}`)); err != nil {
		t.Fatal(err)
	}
	ad := &natsKeyValueAdapter{kv: nkv}
	time.Sleep(100 * time.Millisecond)
	before := runtime.NumGoroutine()
	const n = 20
	for i := 0; i < n; i++ {
		w, err := ad.Watch("g")
		if err != nil {
			t.Fatal(err)
		}
		_ = w.Updates() // taken, never read: the initial value and the marker stay pending
		time.Sleep(20 * time.Millisecond)
		w.Stop()
	}
	deadline := time.Now().Add(3 * time.Second)
	for time.Now().Before(deadline) && runtime.NumGoroutine() > before+n/2 {
		time.Sleep(50 * time.Millisecond)
	}
	if after := runtime.NumGoroutine(); after > before+n/2 {
		t.Fatalf("VIOLATION-REPRODUCED: %d goroutines before, %d after %d watches that were opened, left unread and stopped", before, after, n)
	}
}

// C07.validation_outlasts_a_fault_free_read: the periodic validation gave its read a fixed two seconds, whatever the
// heartbeat interval. With H > 4 s a store that answers every operation within H/2 (fault-free in the sense of C07)
// but slower than two seconds made every periodic validation time out, and the second time-out in a row demoted the
// healthy leader (pointed out by a sub-agent while seeding C07). H = 4.4 s, reads take 2.1 s (< H/2 = 2.2 s).
func TestKnown_C07_SlowButTimelyReadsDemoteAHealthyLeader(t *testing.T) {
	cfg := kCfg()
	cfg.HeartbeatInterval = 4400 * time.Millisecond
	cfg.TTL = 14 * time.Second
	cfg.ValidationInterval = 4400 * time.Millisecond
	e, kv := kElection(t, cfg)
	var demoted atomic.Int32
	e.OnDemote(func() { demoted.Add(1) })
	kLeader(t, e)
	defer e.Stop()
	ent, err := kv.Get("g")
	if err != nil {
		t.Fatal(err)
	}
	rec := append([]byte(nil), ent.Value()...)
	kv.SetGetFunc(func(key string) (natsmock.Entry, error) {
		time.Sleep(2100 * time.Millisecond) // within half a heartbeat interval
		return kEntry{v: rec, rev: ent.Revision()}, nil
	})
	deadline := time.Now().Add(12 * time.Second) // two validation ticks (4.4 s, 8.8 s) and their reads
	for time.Now().Before(deadline) {
		if !e.IsLeader() || demoted.Load() > 0 {
			t.Fatalf("VIOLATION-REPRODUCED: healthy leader (H=4.4s, every read answered after 2.1s < H/2) demoted after %v: IsLeader=%v demotions=%d",
				time.Since(deadline.Add(-12*time.Second)).Round(100*time.Millisecond), e.IsLeader(), demoted.Load())
		}
		time.Sleep(100 * time.Millisecond)
	}
}

// C02.every_tick_of_a_leader_refreshes: a tick on which the health check failed skipped the refresh while the instance
// went on reporting leadership; with MaxConsecutiveFailures x H above the TTL (nothing validates the two against each
// other) the record lapsed under a claiming leader and a standby was promoted next to it. H = 600 ms, TTL = 2.1 s,
// threshold 5: the record written at promotion expires after 2.1 s, the unhealthy leader lets go only at 3.0 s
// (pointed out by a sub-agent while seeding C02; store with real expiry taken from its demonstration).
func TestKnown_C02_UnhealthyLeaderOutlivesItsLease(t *testing.T) {
	const (
		hb  = 600 * time.Millisecond
		ttl = 3*hb + hb/2
	)
	store := newKLsStore()
	mk := func(id string, hc HealthChecker) *kvElection {
		e, err := newKVElection(&kLsProvider{kv: &kLsKV{s: store, bucket: ttl}}, ElectionConfig{
			Bucket: "b", Group: "g", InstanceID: id, TTL: ttl, HeartbeatInterval: hb,
			ValidationInterval: 30 * time.Second, HealthChecker: hc, MaxConsecutiveFailures: 5,
		})
		if err != nil {
			t.Fatal(err)
		}
		return e
	}
	a := mk("A", kLsSick{})
	b := mk("B", nil)
	if err := a.Start(context.Background()); err != nil {
		t.Fatal(err)
	}
	defer func() { _ = a.Stop() }()
	WaitForLeader(t, a, true, 2*time.Second)
	if err := b.Start(context.Background()); err != nil {
		t.Fatal(err)
	}
	defer func() { _ = b.Stop() }()
	both := 0
	deadline := time.Now().Add(ttl + 3*hb)
	for time.Now().Before(deadline) {
		if a.IsLeader() && b.IsLeader() {
			both++
		}
		time.Sleep(time.Millisecond)
	}
	if both > 0 {
		t.Fatalf("VIOLATION-REPRODUCED: A (unhealthy, threshold 5, never refreshing) and B reported IsLeader()==true together on %d samples one millisecond apart", both)
	}
}

type kLsSick struct{}

func (kLsSick) Check(ctx context.Context) bool { return false }

// a small lease store: the record lives for the TTL after every write, expiry notifies the watchers
type kLsRec struct {
	val     []byte
	rev     uint64
	expires time.Time
}

type kLsStore struct {
	mu       sync.Mutex
	rec      *kLsRec
	rev      uint64
	watchers map[*kLsWatcher]struct{}
}

func newKLsStore() *kLsStore {
	return &kLsStore{watchers: make(map[*kLsWatcher]struct{})}
}

// live returns the record if it has not expired (caller holds mu).
func (s *kLsStore) live(now time.Time) *kLsRec {
	if s.rec != nil && !now.Before(s.rec.expires) {
		s.rec = nil
		s.broadcast(nil)
	}
	return s.rec
}

func (s *kLsStore) broadcast(e Entry) {
	for w := range s.watchers {
		select {
		case w.ch <- e:
		default:
		}
	}
}

func (s *kLsStore) armExpiry(rev uint64, ttl time.Duration) {
	time.AfterFunc(ttl+time.Millisecond, func() {
		s.mu.Lock()
		defer s.mu.Unlock()
		if s.rec != nil && s.rec.rev == rev {
			s.live(time.Now())
		}
	})
}

type kLsEntry struct {
	key string
	val []byte
	rev uint64
}

func (e *kLsEntry) Key() string      { return e.key }
func (e *kLsEntry) Value() []byte    { return e.val }
func (e *kLsEntry) Revision() uint64 { return e.rev }

type kLsWatcher struct {
	s    *kLsStore
	ch   chan Entry
	once sync.Once
}

func (w *kLsWatcher) Updates() <-chan Entry { return w.ch }
func (w *kLsWatcher) Stop() {
	w.once.Do(func() {
		w.s.mu.Lock()
		delete(w.s.watchers, w)
		w.s.mu.Unlock()
	})
}

// kLsKV is one client's handle on the store. latency(op, n) is the time the
// n-th operation of that kind takes to reach the store (the answer comes back
// at once after that).
type kLsKV struct {
	s       *kLsStore
	bucket  time.Duration // lease used when a write carries none
	latency func(op string, n int) time.Duration
	nUpdate atomic.Int32
	nCreate atomic.Int32
}

func kLsLease(def time.Duration, opts []interface{}) time.Duration {
	for _, o := range opts {
		if d, ok := o.(time.Duration); ok && d > 0 {
			return d
		}
	}
	return def
}

func (k *kLsKV) wait(op string, n int) {
	if k.latency != nil {
		if d := k.latency(op, n); d > 0 {
			time.Sleep(d)
		}
	}
}

func (k *kLsKV) Create(key string, value []byte, opts ...interface{}) (uint64, error) {
	k.wait("create", int(k.nCreate.Add(1)))
	s := k.s
	s.mu.Lock()
	defer s.mu.Unlock()
	now := time.Now()
	if s.live(now) != nil {
		return 0, errors.New("key already exists")
	}
	ttl := kLsLease(k.bucket, opts)
	s.rev++
	s.rec = &kLsRec{val: value, rev: s.rev, expires: now.Add(ttl)}
	s.armExpiry(s.rev, ttl)
	s.broadcast(&kLsEntry{key: key, val: value, rev: s.rev})
	return s.rev, nil
}

func (k *kLsKV) Update(key string, value []byte, rev uint64, opts ...interface{}) (uint64, error) {
	k.wait("update", int(k.nUpdate.Add(1)))
	s := k.s
	s.mu.Lock()
	defer s.mu.Unlock()
	now := time.Now()
	rec := s.live(now)
	if rec == nil {
		return 0, errors.New("key not found")
	}
	if rec.rev != rev {
		return 0, errors.New("revision mismatch")
	}
	ttl := kLsLease(k.bucket, opts)
	s.rev++
	s.rec = &kLsRec{val: value, rev: s.rev, expires: now.Add(ttl)}
	s.armExpiry(s.rev, ttl)
	s.broadcast(&kLsEntry{key: key, val: value, rev: s.rev})
	return s.rev, nil
}

func (k *kLsKV) Get(key string) (Entry, error) {
	s := k.s
	s.mu.Lock()
	defer s.mu.Unlock()
	rec := s.live(time.Now())
	if rec == nil {
		return nil, errors.New("key not found")
	}
	return &kLsEntry{key: key, val: rec.val, rev: rec.rev}, nil
}

func (k *kLsKV) Delete(key string) error {
	s := k.s
	s.mu.Lock()
	defer s.mu.Unlock()
	if s.live(time.Now()) == nil {
		return errors.New("key not found")
	}
	s.rec = nil
	s.broadcast(nil)
	return nil
}

func (k *kLsKV) Watch(key string, opts ...interface{}) (Watcher, error) {
	s := k.s
	s.mu.Lock()
	defer s.mu.Unlock()
	w := &kLsWatcher{s: s, ch: make(chan Entry, 64)}
	s.watchers[w] = struct{}{}
	if rec := s.live(time.Now()); rec != nil {
		w.ch <- &kLsEntry{key: key, val: rec.val, rev: rec.rev}
	}
	return w, nil
}

type kLsProvider struct{ kv KeyValue }

func (p *kLsProvider) JetStream() (JetStreamContext, error) { return p, nil }
func (p *kLsProvider) KeyValue(bucket string) (KeyValue, error) {
	return p.kv, nil
}


// C09.the_record_is_gone_when_a_stop_with_delete_returns: a refresh that is in flight when StopWithContext begins may be
// applied by the store without its new revision ever being recorded (the refresh loop leaves at the cancellation and
// drops the answer). On a store with conditional deletes the shutdown then names the stale revision, the delete is
// refused, and StopWithContext returns nil with the instance's own record still in place: the successor waits for the
// TTL (pointed out by a sub-agent while seeding C09).
func TestKnown_C09_DeleteKeyAfterAnInFlightRefresh(t *testing.T) {
	const hb = 200 * time.Millisecond
	store := newKLsStore()
	kv := &kLsRD{kLsKV: &kLsKV{s: store, bucket: 10 * time.Second}}
	e, err := newKVElection(&kLsProvider{kv: kv}, ElectionConfig{Bucket: "b", Group: "g", InstanceID: "A", TTL: 10 * time.Second, HeartbeatInterval: hb})
	if err != nil {
		t.Fatal(err)
	}
	if err := e.Start(context.Background()); err != nil {
		t.Fatal(err)
	}
	WaitForLeader(t, e, true, 2*time.Second)
	kv.slowAck.Store(true) // from now on a refresh is applied at once and acknowledged 150 ms later
	deadline := time.Now().Add(2 * time.Second)
	for kv.inFlight.Load() == 0 && time.Now().Before(deadline) {
		time.Sleep(time.Millisecond)
	}
	if kv.inFlight.Load() == 0 {
		t.Skip("no refresh seen in flight")
	}
	ctx, cancel := context.WithTimeout(context.Background(), 3*time.Second)
	defer cancel()
	if err := e.StopWithContext(ctx, StopOptions{DeleteKey: true}); err != nil {
		t.Fatalf("StopWithContext: %v", err)
	}
	if ent, err := kv.Get("g"); err == nil && ent != nil {
		t.Fatalf("VIOLATION-REPRODUCED: StopWithContext(DeleteKey) returned nil and the stopped owner's record is still there: %s (revision %d)", ent.Value(), ent.Revision())
	}
}

// kLsRD adds conditional deletes to the lease store, and refreshes whose acknowledgement is slow.
type kLsRD struct {
	*kLsKV
	slowAck  atomic.Bool
	inFlight atomic.Int32
}

func (k *kLsRD) Update(key string, value []byte, rev uint64, opts ...interface{}) (uint64, error) {
	r, err := k.kLsKV.Update(key, value, rev, opts...)
	if k.slowAck.Load() {
		k.inFlight.Add(1)
		time.Sleep(150 * time.Millisecond)
		k.inFlight.Add(-1)
	}
	return r, err
}

func (k *kLsRD) DeleteRevision(key string, rev uint64) error {
	s := k.s
	s.mu.Lock()
	defer s.mu.Unlock()
	rec := s.live(time.Now())
	if rec == nil {
		return errors.New("key not found")
	}
	if rec.rev != rev {
		return errors.New("nats: wrong last sequence")
	}
	s.rec = nil
	s.broadcast(nil)
	return nil
}
