#!/usr/bin/env python3
"""Import the sub-agents' seeded changes from /tmp/cand into /verif/seeded (patch against /repo HEAD, demo, meta)."""
import json, os, shutil, glob, sys
ported = {"C01-1": "follower-side observations now go to observedRevision; the change uses that field where the original used e.revision",
          "C10-2": "context lines only",
          "C12-1": "context lines only; demo adapted: the watcher path now runs OnDemote, so the demo compares against the count at the end of term 1",
          "C07-1": "same edit on the repaired code: the fall-through now also happens for a stale event naming another id; it then breaks C18 (a leader's LeaderID shows another id) rather than demoting the leader"}
obsolete = {"C01-2": "after the fix that keeps follower-side observations out of the refresh revision, a demoted instance that keeps heartbeating can only refresh a record it still owns (its demo passes with the change); the change is still flagged by refresh_only_while_leader (C06/C03/C07: such an instance keeps a leaderless record alive), without an executable demo",
            "C07-1": "after the same fix a late notification of the leader's own record no longer rewinds the refresh revision (its demo passes with the change); the identical edit still breaks C18 and is kept as seeded/C18-3 with a new demo",
            "C08-1": "after the fix 'run the demotion callback only in the handler that actually ended the term' dropping the leader guard no longer doubles OnDemote (becomeFollower reports nothing cleared); kept for the record only"}
ver = {}
for f in glob.glob('/tmp/verify_head_*.jsonl'):
    for l in open(f):
        try:
            j = json.loads(l); ver[j['name']] = j
        except Exception:
            pass
old = {}
for l in open('/verif/.work/verify_oldbase.jsonl') if os.path.exists('/verif/.work/verify_oldbase.jsonl') else []:
    try:
        j = json.loads(l); w = j['mutant'].split('/')[2][3:]; k = j['mutant'][-1]; old[f"{w}-{k}"] = j
    except Exception:
        pass
for d in sorted(glob.glob('/tmp/cand/*')):
    n = os.path.basename(d)
    dst = f"/verif/seeded/{n}" if n not in obsolete else f"/verif/seeded/_obsolete/{n}"
    os.makedirs(dst, exist_ok=True)
    shutil.copy(f"{d}/patch.diff", f"{dst}/patch.diff")
    if n in ported:
        shutil.copy(f"{d}/patch.orig.diff", f"{dst}/patch.orig.diff")
    shutil.copy(f"{d}/demo_test.go", f"{dst}/demo_test.go.txt")
    try:
        a = json.load(open(f"{d}/meta.agent.json"))
    except Exception as e:
        a = {}
    prop = n.split('-')[0]
    meta = {
        "property": prop,
        "summary": a.get("summary"),
        "needs_to_manifest": a.get("needs_to_manifest"),
        "files_changed": a.get("files_changed"),
        "origin": "independent sub-agent given only the text of this property and a scratch worktree of /repo without the contract file",
        "agent_ran": a.get("ran"),
        "agent_demo_cmd": a.get("demo_cmd"),
        "confirmed_on_agent_base": old.get(n),
        "confirmed_on_head": ver.get(n),
        "how_confirmed": "tools/verify_on_head.sh: demo passes without the change, fails with it, whole suite passes with it (scratch worktree under /tmp, removed afterwards)",
        "demo": "demo_test.go.txt: copy to leader/zz_demo_test.go (first line may carry a build tag; C20 demos need -race)",
        "expect": "violation",
        "detected_by": [prop],
    }
    if n == "C07-1":
        meta["detected_by"] = ["C07", "C18"]
    if n in ported:
        meta["ported"] = ported[n]
    if n in obsolete:
        meta["expect"] = "obsolete"; meta["obsolete"] = obsolete[n]; meta["detected_by"] = []
    json.dump(meta, open(f"{dst}/meta.json", "w"), indent=1)
print(len(glob.glob('/verif/seeded/*/meta.json')), "seeded changes imported")
