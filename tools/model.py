#!/usr/bin/env python3
"""Show the scalar part of a solver model for one obligation file (development aid)."""
import re, subprocess, sys
f = sys.argv[1]
out = subprocess.run(["z3-new", "-T:20", f], capture_output=True, text=True).stdout
print(out.split("\n", 1)[0])
pat = re.compile(r"\(define-fun ([^\s]+) \(\) (Int|Bool|Real)\s+([^\n]*?)\)\s*$", re.M)
flt = sys.argv[2] if len(sys.argv) > 2 else ""
for m in pat.finditer(out):
    if flt in m.group(1):
        print(f"  {m.group(1)} = {m.group(3)}")
