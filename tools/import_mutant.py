#!/usr/bin/env python3
"""Import a sub-agent's mutant into /verif/seeded/<name>/ after it has been independently verified.
usage: import_mutant.py <worktree> <k> <name> <verification-json-line-file> <detected_by(comma list)>"""
import json, os, shutil, sys
wt, k, name, vfile, det = sys.argv[1:6]
src = f"{wt}/MUTANT{k}"
dst = f"/verif/seeded/{name}"
os.makedirs(dst, exist_ok=True)
shutil.copy(f"{src}/patch.diff", f"{dst}/patch.diff")
shutil.copy(f"{src}/demo_test.go", f"{dst}/demo_test.go.txt")   # .txt: never compiled from here
try:
    meta = json.load(open(f"{src}/meta.json"))
except Exception as e:
    meta = {"note": f"agent meta.json unreadable: {e}"}
ver = None
for l in open(vfile):
    try:
        j = json.loads(l)
    except Exception:
        continue
    if j.get("mutant") == src:
        ver = j
out = {
    "property": meta.get("property", name.split("-")[0]),
    "summary": meta.get("summary"),
    "needs_to_manifest": meta.get("needs_to_manifest"),
    "files_changed": meta.get("files_changed"),
    "origin": "independent sub-agent given only the property text and a scratch worktree",
    "agent_ran": meta.get("ran"),
    "confirmed_in_scratch_worktree": ver,
    "confirm_cmd": "tools/verify_mutant.sh <worktree> <k>  (suite with the change, demo with and without it)",
    "expect": "violation",
    "detected_by": [d for d in det.split(",") if d],
    "demo": "demo_test.go.txt (copy to leader/zz_demo_test.go; build tag on its first line, if any)",
}
json.dump(out, open(f"{dst}/meta.json", "w"), indent=1)
print(dst, out["detected_by"], ver)
