#!/bin/bash
# usage: tools/rebase_corpus.sh <lane-worktree>
# After a repair of /repo: lists the corpus entries (seeded/, selftest/mutants, selftest/harmless) whose patch no
# longer applies to /repo's HEAD and tries to re-base each with a 3-way merge in the scratch worktree. A re-based
# patch is written next to the original (patch.diff; the original is kept as patch.orig.diff). Entries that conflict
# are printed as CONFLICT and have to be ported by hand; seeded entries must be re-confirmed afterwards with
# tools/verify_on_head.sh <lane> <name> <patch> <demo>.
lane="$1"
[ -e "$lane/.git" ] || git -C /repo worktree add -q --detach "$lane" HEAD || exit 2
cd "$lane" || exit 2
git checkout -q -- . ; git checkout -q --detach "$(git -C /repo rev-parse HEAD)"; git reset -q --hard HEAD
export GOFLAGS=-mod=mod GOPROXY=off
for d in /verif/seeded/C*-* /verif/seeded/_unconfirmed/C*-* /verif/selftest/mutants/* /verif/selftest/harmless/*; do
  [ -f "$d/patch.diff" ] || continue
  git reset -q --hard HEAD
  git apply --check "$d/patch.diff" 2>/dev/null && continue
  n=$(basename "$d")
  if git apply --3way "$d/patch.diff" >/dev/null 2>&1 && ! git diff --name-only --diff-filter=U | grep -q . && go build ./... >/dev/null 2>&1; then
    [ -f "$d/patch.orig.diff" ] || cp "$d/patch.diff" "$d/patch.orig.diff"
    git diff HEAD -- leader internal ':!leader/verif_contracts.go' > "$d/patch.diff"
    echo "REBASED $n"
  else
    echo "CONFLICT $n"
  fi
done
git reset -q --hard HEAD
