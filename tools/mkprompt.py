#!/usr/bin/env python3
"""usage: tools/mkprompt.py [--wave N] ID...
Writes the prompt given to an independent mutation sub-agent for one property: only the property text, the worktree
path and (from wave 2 on) one-line descriptions of the changes other agents already tried for that property, so that
new agents look elsewhere. Nothing about /verif, the contracts or the checks is included.
Output: /tmp/prompt<N>_<ID>.txt, worktree name /tmp/w<N>_<ID>."""
import json, sys, glob, os
args = sys.argv[1:]
wave = None
if args and args[0] == '--wave':
    wave = args[1]; args = args[2:]
T = open('/verif/tools/mutant_prompt.tmpl').read()
props = {json.loads(l)['id']: json.loads(l) for l in open('/verif/properties.jsonl')}
for id in args:
    p = props[id]
    wt = f'/tmp/w{wave}_{id}' if wave else f'/tmp/wt_{id}'
    s = T.replace('/tmp/wt_@ID@', wt).replace('@ID@', id).replace('@TITLE@', p['title']).replace('@STATEMENT@', p['statement']).replace('@QTEXT@', p['quantifier']['text'])
    if wave:
        tried = []
        for d in sorted(glob.glob(f'/verif/seeded/{id}-*') + glob.glob(f'/verif/seeded/_obsolete/{id}-*') + glob.glob(f'/verif/seeded/_unconfirmed/{id}-*')):
            try:
                m = json.load(open(d + '/meta.json'))
            except Exception:
                continue
            files = ', '.join(m.get('files_changed') or [])
            tried.append(f"- {files}: {(m.get('summary') or '')[:420]}")
        if tried:
            s += "\n\nALREADY TRIED by other people for this property (do NOT repeat these or close variants; pick different functions / different clauses of the property):\n" + "\n".join(tried)
        s += "\n\nNote: this worktree is a newer revision of the library than earlier ones (several defects were repaired recently), so read the current code rather than assuming."
    out = f'/tmp/prompt{wave}_{id}.txt' if wave else f'/tmp/prompt_{id}.txt'
    open(out, 'w').write(s)
    print(out)
