#!/usr/bin/env python3
"""Writes the prompt given to an independent mutation sub-agent for one property (only the property text, nothing from /verif)."""
import json, sys
T = open('/verif/tools/mutant_prompt.tmpl').read()
props = {json.loads(l)['id']: json.loads(l) for l in open('/verif/properties.jsonl')}
for id in sys.argv[1:]:
    p = props[id]
    open(f'/tmp/prompt_{id}.txt', 'w').write(T.replace('@ID@', id).replace('@TITLE@', p['title']).replace('@STATEMENT@', p['statement']).replace('@QTEXT@', p['quantifier']['text']))
    print(f'/tmp/prompt_{id}.txt')
