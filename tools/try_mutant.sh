#!/bin/sh
# usage: tools/try_mutant.sh <patch.diff> <PROP> [PROP...]   — apply a seeded change to /repo, run the quick checks, undo it
p="$1"; shift
cd /verif
git -C /repo diff --quiet || { echo "refusing: /repo has uncommitted changes (commit them first)"; exit 2; }
git -C /repo apply "$p" || { echo "patch does not apply"; exit 2; }
for id in "$@"; do ./check "$id" quick 2>&1 | grep -v "^KNOWN-FINDING\|^NOTE" | tail -6; done
git -C /repo checkout -- .
git -C /repo status --short | head -3
