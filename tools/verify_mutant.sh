#!/bin/bash
# usage: tools/verify_mutant.sh <worktree> <k> — independently confirm a seeded change:
#   suite passes with the change; demo fails with it and passes without it. Prints a JSON line.
wt="$1"; k="$2"; m="$wt/MUTANT$k"
cd "$wt" || exit 2
export GOFLAGS=-mod=mod GOPROXY=off
git checkout -q -- leader internal 2>/dev/null
rm -f leader/zz_demo_test.go
tag=$(head -1 "$m/demo_test.go" | sed -n 's#^//go:build \(.*\)$#\1#p')
tagarg=""; [ -n "$tag" ] && tagarg="-tags $tag"
pkg=$(grep -m1 '^package ' "$m/demo_test.go" | awk '{print $2}')
dir=leader; [ "$pkg" = natsmock ] && dir=internal/natsmock
tests=$(grep -o '^func Test[A-Za-z0-9_]*' "$m/demo_test.go" | sed 's/func //' | paste -sd'|')
rundemo() { cp "$m/demo_test.go" $dir/zz_demo_test.go; go test -vet=off -count=1 $tagarg -timeout 300s -run "^($tests)\$" ./$dir/ >/tmp/demo_out_$$.txt 2>&1; rc=$?; rm -f $dir/zz_demo_test.go; return $rc; }
rundemo; base=$?
git apply "$m/patch.diff" || { echo "{\"mutant\":\"$m\",\"error\":\"patch does not apply\"}"; exit 1; }
go build ./... >/dev/null 2>&1; build=$?
rundemo; withc=$?
go test -vet=off -count=1 -timeout 25m $(go list ./... 2>/dev/null | grep -v MUTANT) >/tmp/suite_out_$$.txt 2>&1; suite=$?
git checkout -q -- leader internal
echo "{\"mutant\":\"$m\",\"build_rc\":$build,\"demo_without_change_rc\":$base,\"demo_with_change_rc\":$withc,\"suite_with_change_rc\":$suite}"
rm -f /tmp/demo_out_$$.txt /tmp/suite_out_$$.txt
