#!/bin/bash
# usage: tools/verify_on_head.sh <lane-dir> <name> <patch> <demo_test.go>
# Confirms a seeded change against /repo's HEAD in a scratch worktree (created on demand, reused per lane):
# the demo passes without the change and fails with it; the whole suite passes with it. Prints one JSON line.
lane="$1"; name="$2"; patch="$3"; demo="$4"
export GOFLAGS=-mod=mod GOPROXY=off
if [ ! -e "$lane/.git" ]; then git -C /repo worktree add -q --detach "$lane" HEAD || exit 2; fi
cd "$lane" || exit 2
git checkout -q --detach "$(git -C /repo rev-parse HEAD)" 2>/dev/null
git checkout -q -- . ; rm -f leader/zz_demo_test.go internal/natsmock/zz_demo_test.go
tag=$(head -1 "$demo" | sed -n 's#^//go:build \([A-Za-z0-9_]*\).*$#\1#p'); tagarg=""; [ -n "$tag" ] && tagarg="-tags $tag"
pkg=$(grep -m1 '^package ' "$demo" | awk '{print $2}'); dir=leader; [ "$pkg" = natsmock ] && dir=internal/natsmock
tests=$(grep -o '^func Test[A-Za-z0-9_]*' "$demo" | sed 's/func //' | paste -sd'|')
race=""; case "$name" in C20-*) race="-race";; esac
rundemo() { cp "$demo" $dir/zz_demo_test.go; go test -vet=off -count=1 $race $tagarg -timeout 300s -run "^($tests)\$" ./$dir/ >/dev/null 2>&1; rc=$?; rm -f $dir/zz_demo_test.go; return $rc; }
rundemo; base=$?
git apply "$patch" 2>/dev/null || { echo "{\"name\":\"$name\",\"error\":\"patch does not apply to HEAD\"}"; exit 1; }
go build ./... >/dev/null 2>&1; build=$?
rundemo; withc=$?
go test -vet=off -count=1 -timeout 25m ./... >/dev/null 2>&1; suite=$?
suite2=0
if [ $suite -ne 0 ]; then go test -vet=off -count=1 -timeout 25m ./... >/dev/null 2>&1; suite2=$?; fi
git checkout -q -- .
echo "{\"name\":\"$name\",\"head\":\"$(git -C /repo rev-parse --short HEAD)\",\"race\":\"$race\",\"build_rc\":$build,\"demo_without_change_rc\":$base,\"demo_with_change_rc\":$withc,\"suite_with_change_rc\":$suite,\"suite_retry_rc\":$suite2}"
