#!/bin/sh
# usage: tools/try_all.sh <patch.diff> — apply a seeded change, run all 20 quick checks, list the properties that raise a violation, undo
cd /verif
git -C /repo diff --quiet || { echo "refusing: /repo has uncommitted changes (commit them first)"; exit 2; }
git -C /repo apply "$1" || { echo "patch does not apply"; exit 2; }
for i in 01 02 03 04 05 06 07 08 09 10 11 12 13 14 15 16 17 18 19 20; do ./check C$i quick 2>&1 | grep "^VIOLATION\|ENGINE" | cut -c1-220; done
git -C /repo checkout -- .
