#!/usr/bin/env python3
"""usage: tools/import_wave.py <cand-dir> <verify-jsonl-glob> <wave-number> [notes.json]
Imports confirmed sub-agent changes (<cand-dir>/<ID>-<k>/{patch.diff,demo_test.go,meta.agent.json}) into /verif/seeded.
Only candidates whose confirmation line (tools/verify_on_head.sh) shows: builds, demo passes without the change,
demo fails with it, suite passes with it (first run or the retry) are imported. notes.json maps name -> {"detected_by":[..],
"first_contact": "caught"|"missed", "strengthened_by": "..."}."""
import json, os, shutil, glob, sys
cand, vglob, wave = sys.argv[1], sys.argv[2], int(sys.argv[3])
notes = json.load(open(sys.argv[4])) if len(sys.argv) > 4 else {}
ver = {}
for f in glob.glob(vglob):
    for l in open(f):
        try:
            j = json.loads(l); ver[j['name']] = j
        except Exception:
            pass
n_ok = 0
for d in sorted(glob.glob(cand + '/*')):
    n = os.path.basename(d)
    v = ver.get(n)
    ok = v and v.get('build_rc') == 0 and v.get('demo_without_change_rc') == 0 and v.get('demo_with_change_rc') != 0 and (v.get('suite_with_change_rc') == 0 or v.get('suite_retry_rc') == 0)
    if not ok:
        print("SKIP", n, v); continue
    dst = f"/verif/seeded/{n}"
    os.makedirs(dst, exist_ok=True)
    shutil.copy(f"{d}/patch.diff", f"{dst}/patch.diff")
    shutil.copy(f"{d}/demo_test.go", f"{dst}/demo_test.go.txt")
    try:
        a = json.load(open(f"{d}/meta.agent.json"))
    except Exception:
        a = {}
    prop = n.split('-')[0]
    nt = notes.get(n, {})
    meta = {
        "property": prop,
        "wave": wave,
        "summary": a.get("summary"),
        "needs_to_manifest": a.get("needs_to_manifest"),
        "files_changed": a.get("files_changed"),
        "origin": "independent sub-agent given only the text of this property and a scratch worktree of /repo without the contract file",
        "agent_ran": a.get("ran"),
        "agent_demo_cmd": a.get("demo_cmd"),
        "confirmed_on_head": v,
        "how_confirmed": "tools/verify_on_head.sh: demo passes without the change, fails with it, whole suite passes with it (scratch worktree under /tmp, removed afterwards); a suite failure on the first run followed by a clean retry is load flakiness of timing tests",
        "demo": "demo_test.go.txt: copy to leader/zz_demo_test.go (first line may carry a build tag; C20 demos need -race)",
        "expect": "violation",
        "detected_by": nt.get("detected_by", [prop]),
        "first_contact": nt.get("first_contact"),
        "strengthened_by": nt.get("strengthened_by"),
        "failing_obligation": nt.get("failing_obligation"),
    }
    json.dump(meta, open(f"{dst}/meta.json", "w"), indent=1)
    n_ok += 1
print(n_ok, "imported;", len(glob.glob('/verif/seeded/*/meta.json')), "seeded changes in total")
