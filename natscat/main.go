// natscat prints, for a catalogue of error values built with the real NATS
// client module (github.com/nats-io/nats.go, the version the repository
// pins), the observable facts the error classifier can depend on: message,
// lower-cased message, dynamic type, errors.Is against the context
// sentinels, and strings.Contains of the lower-cased message for each
// pattern given on the command line. govc turns these into ground axioms.
package main

import (
	"context"
	"encoding/json"
	"errors"
	"fmt"
	"os"
	"strings"

	"github.com/nats-io/nats.go"
)

type entry struct {
	Name     string          `json:"name"`
	Class    string          `json:"class"` // conflict | transient
	Msg      string          `json:"msg"`
	Lower    string          `json:"lower"`
	Type     string          `json:"type"`
	Is       map[string]bool `json:"is"`
	Contains map[string]bool `json:"contains"`
}

func main() {
	patterns := os.Args[1:]
	type cv struct {
		name, class string
		err         error
	}
	apiErr := func(n int) error {
		return &nats.APIError{Code: 400, ErrorCode: nats.JSErrCodeStreamWrongLastSequence, Description: fmt.Sprintf("wrong last sequence: %d", n)}
	}
	vals := []cv{
		{"nats.ErrKeyExists", "conflict", nats.ErrKeyExists},
		{"kv.Create on an existing key (wrapped ErrKeyExists)", "conflict", fmt.Errorf("%w: %s", nats.ErrKeyExists, "key exists")},
		{"APIError 10071 wrong last sequence: 1", "conflict", apiErr(1)},
		{"APIError 10071 wrong last sequence: 7", "conflict", apiErr(7)},
		{"APIError 10071 wrong last sequence: 18446744073709551615", "conflict", &nats.APIError{Code: 400, ErrorCode: nats.JSErrCodeStreamWrongLastSequence, Description: "wrong last sequence: 18446744073709551615"}},
		{"nats.ErrTimeout", "transient", nats.ErrTimeout},
		{"nats.ErrNoResponders", "transient", nats.ErrNoResponders},
		{"nats.ErrConnectionClosed", "transient", nats.ErrConnectionClosed},
		{"context.DeadlineExceeded from a request", "transient", context.DeadlineExceeded},
	}
	var out []entry
	for _, v := range vals {
		e := entry{Name: v.name, Class: v.class, Msg: v.err.Error(), Lower: strings.ToLower(v.err.Error()), Type: fmt.Sprintf("%T", v.err),
			Is: map[string]bool{
				"context.Canceled":         errors.Is(v.err, context.Canceled),
				"context.DeadlineExceeded": errors.Is(v.err, context.DeadlineExceeded),
				"nats.ErrKeyExists":        errors.Is(v.err, nats.ErrKeyExists),
			}, Contains: map[string]bool{}}
		for _, p := range patterns {
			e.Contains[p] = strings.Contains(e.Lower, p)
		}
		out = append(out, e)
	}
	b, _ := json.MarshalIndent(out, "", " ")
	fmt.Println(string(b))
}
