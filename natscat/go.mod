module natscat

go 1.25.4

require github.com/nats-io/nats.go v1.47.0

require (
	github.com/klauspost/compress v1.18.1 // indirect
	github.com/nats-io/nkeys v0.4.11 // indirect
	github.com/nats-io/nuid v1.0.1 // indirect
	golang.org/x/crypto v0.43.0 // indirect
	golang.org/x/sys v0.38.0 // indirect
)
